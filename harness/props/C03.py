"""C03 - end-to-end messaging (PARTIAL): exactly-once authentic delivery, only ciphertext on the wire.
Model: coq/C03 (one account as an input-enabled machine + theorems over all input sequences);
implementation: 2-4 real yowsup accounts in the world simulator (harness/worldsim.py)."""
import json, random
from .. import modelrun
from .. import worldsim as ws

PHONES = ["1000001", "1000002", "1000003", "1000004"]
MT = {None: 0, "image": 1, "location": 2, "contact": 3, "url": 4}
KF_DUP_SKMSG = "group-dup-of-undecryptable-skmsg"
KF_AXOLOTL_PAD = "python-axolotl-0.2.2-aligned-plaintext"
KF_REORDER = "group-skmsg-older-than-first-processed-distribution"

ASSUME = [
    "PARTIAL: proved at world level (any number of accounts + honest server, any schedule, faults and restarts "
    "anywhere): no account ever emits a plaintext stanza; an entity shown to r with id m belongs to the send step of m - r is an addressee, sender / group / type "
    "/ content are that step's.  Proved for every input sequence of one account (hence any number of accounts, any "
    "server schedule, any fault placement): only ciphertext leaves the send layer, at most one entity per stanza, a replayed ciphertext is "
    "never shown again and is re-acknowledged, a delivered entity carries the decrypted payload and the stanza's "
    "sender/group/id, a failed decryption yields exactly one retry receipt, a retry receipt yields exactly one directed "
    "re-encryption, sentQueue never exceeds 100.  NOT proved, checked by the simulator only (C03_complete_partial and "
    "the per-(recipient, id) form of at-most-once / no-stray, which need a world-level invariant over server queues "
    "and both ratchets): every sent message reaches every intended recipient exactly once and the sender gets each "
    "delivery receipt.  Proved in addition (C03_chain_* / C03_late_key_no_redelivery): a sender-key distribution "
    "message carries the chain position at its creation (= number of group messages encrypted so far, any state, any "
    "history), a recipient's chain starts there, and a stanza encrypted below a recipient's chain start is never "
    "shown again whatever happens in between - so a member that got the key late through its retry receipt only "
    "re-acknowledges a late duplicate of the original stanza; refuted for a memoised distribution message",
    "modelled, not verified: python-axolotl 0.2.2 session / sender-key ciphers as the abstract ratchet of "
    "coq/C03/C03Model.v; protobuf parsing; random padding (drawn from the seeded generator); SQLite durability",
    "tie model<->code: each script is run on 2-4 real stacks (control/send/receive axolotl layers, protocol layers, real "
    "python-axolotl, SQLite, protobuf) against the server double under an explicit schedule with <= 1 fault; every "
    "account's real inputs are abstracted and replayed through the extracted model; every stanza at the bottom and every "
    "entity at the top, plus the session lists, are compared after every input; the same action list is run through "
    "the extracted WORLD model (accounts + server) and every application must see the same entities and receipts",
    "harness/worldsim.py: server double, recorder, DECLARED third-party shim: python-axolotl 0.2.2 pads the AES-CBC input "
    "only when unaligned; the simulator runs with always-pad (python-axolotl >= 0.2.3 behaviour); the un-shimmed "
    "behaviour is probed on every run and reported as an open known finding",
]


# ---------------------------------------------------------------------------------------------------
# message entities with every field set (arbitrary values from the seeded generator)
# ---------------------------------------------------------------------------------------------------
def rstr(rng, lo=1, hi=24):
    alphabet = "abcdefghijklmnopqrstuvwxyzABCXYZ0123456789 .,!?-_/" + "\u00e4\u00f6\u00fc\u00df\u20ac\u4e2d\u6587"
    return "".join(rng.choice(alphabet) for _ in range(rng.randint(lo, hi)))


def make_entity(kind, mid, to, rng):
    from yowsup.layers.protocol_messages.protocolentities import TextMessageProtocolEntity, \
        ExtendedTextMessageProtocolEntity
    from yowsup.layers.protocol_messages.protocolentities.attributes.attributes_message_meta import \
        MessageMetaAttributes
    from yowsup.layers.protocol_messages.protocolentities.attributes.attributes_image import ImageAttributes
    from yowsup.layers.protocol_messages.protocolentities.attributes.attributes_downloadablemedia import \
        DownloadableMediaMessageAttributes
    from yowsup.layers.protocol_messages.protocolentities.attributes.attributes_location import LocationAttributes
    from yowsup.layers.protocol_messages.protocolentities.attributes.attributes_contact import ContactAttributes
    from yowsup.layers.protocol_messages.protocolentities.attributes.attributes_extendedtext import \
        ExtendedTextAttributes
    from yowsup.layers.protocol_media.protocolentities import ImageDownloadableMediaMessageProtocolEntity, \
        LocationMediaMessageProtocolEntity, ContactMediaMessageProtocolEntity, ExtendedTextMediaMessageProtocolEntity
    meta = MessageMetaAttributes(id="m%d" % mid, recipient=to)
    tag = "<%d:%s>" % (mid, rstr(rng, 4, 10))      # makes every payload unique and searchable
    if kind == "text":
        return TextMessageProtocolEntity(tag + rstr(rng, 1, 60), meta)
    if kind == "exttext":
        return ExtendedTextMessageProtocolEntity(
            ExtendedTextAttributes(tag + rstr(rng), "http://" + rstr(rng, 3, 8), "http://c/" + rstr(rng, 3, 8),
                                   rstr(rng), rstr(rng), rng.randbytes(rng.randint(1, 40)), None), meta)
    if kind == "image":
        dl = DownloadableMediaMessageAttributes("image/jpeg", rng.randint(1, 1 << 30), rng.randbytes(32),
                                                "https://mmg/" + tag, rng.randbytes(32))
        return ImageDownloadableMediaMessageProtocolEntity(
            ImageAttributes(dl, rng.randint(1, 4000), rng.randint(1, 4000), tag + rstr(rng),
                            b"\xff\xd8" + rng.randbytes(rng.randint(1, 60))), meta)
    if kind == "location":
        return LocationMediaMessageProtocolEntity(
            LocationAttributes(rng.uniform(-90, 90), rng.uniform(-180, 180), tag + rstr(rng), rstr(rng),
                               "http://" + rstr(rng, 3, 9)), meta)
    if kind == "contact":
        return ContactMediaMessageProtocolEntity(
            ContactAttributes(tag + rstr(rng), ("BEGIN:VCARD\nFN:%s\nEND:VCARD" % rstr(rng)).encode("utf-8")), meta)
    if kind == "url":
        return ExtendedTextMediaMessageProtocolEntity(
            ExtendedTextAttributes(tag + rstr(rng), "http://" + rstr(rng, 3, 8), "http://c/" + rstr(rng, 3, 8),
                                   rstr(rng), rstr(rng), rng.randbytes(rng.randint(1, 40)), None), meta)
    raise ValueError(kind)


KINDS = ["text", "text", "text", "exttext", "image", "location", "contact", "url"]


# ---------------------------------------------------------------------------------------------------
# running one script: `actions` is the explicit, replayable list (ops, deliveries, faults)
# ---------------------------------------------------------------------------------------------------
class Runner(object):
    def __init__(self, ctx, case):
        self.case = case
        n = case["n"]
        self.w = ws.World(ctx.scratch, PHONES[:n], prekeys=case.get("prekeys", 24),
                          pad_rng=random.Random(case.get("pad_seed", 1)))
        self.groups = []
        for k, members in enumerate(case.get("groups", [])):
            self.groups.append(self.w.add_group(members[0], members, k))
        self.mid = 0
        self.sends = {}         # mid -> {"from","to","group","recipients","kind","raw","texts"}
        self.entity_rng = random.Random(case.get("entity_seed", 7))
        self.crash = None
        self.had_key = {}       # (account, index of the incoming event) -> held a sender key of that sender then

    def chains_of(self, acct):
        """the sender-key chains account `acct` holds for OTHER senders, read from its sender_keys table (read-only):
        [pairkey(group, sender), iteration of the chain in use = the record's first state, number of states]"""
        from axolotl.groups.state.senderkeyrecord import SenderKeyRecord
        rec = self.w.observer
        out = []
        for gid, sid, blob in rec._db(acct, "SELECT group_id, sender_id, record FROM sender_keys"):
            snd = self.w.by_jid.get(ws.jid_of(str(sid)))
            if snd is None or snd is acct:
                continue
            r = SenderKeyRecord(serialized=bytes(blob))
            if r.isEmpty():
                continue
            out.append([rec.peer(gid) * 1000000 + snd.idx,
                        r.senderKeyStates[0].getSenderChainKey().getIteration(), len(r.senderKeyStates)])
        return sorted(out)

    def target_jid(self, t):
        if isinstance(t, str):
            return self.groups[int(t[1:])]
        return self.w.accounts[t].jid

    def do(self, act):
        w = self.w
        k = act[0]
        if k == "send":
            _, a, t, kind = act[:4]
            self.mid += 1
            to = self.target_jid(t)
            ent = make_entity(kind, self.mid, to, self.entity_rng)
            node = ent.toProtocolTreeNode()
            proto = node.getChild("proto")
            raw = ws._bytes(proto.getData())
            if isinstance(t, str):
                members = self.case["groups"][int(t[1:])]
                rcp = [m for m in members if m != a]
            else:
                rcp = [t]
            self.sends[self.mid] = {"from": a, "to": t, "group": t if isinstance(t, str) else None, "recipients": rcp,
                                    "kind": kind, "raw": raw, "ty": 0 if node["type"] == "text" else 1,
                                    "mt": MT.get(proto["mediatype"], 9)}
            w.accounts[a].app_send(ent)
        elif k == "deliver":
            if act[1] < len(w.pending):
                d = w.pending[act[1]]
                if d.kind == "message" and d.meta.get("group") and w.observer is not None and d.dst.stack is not None:
                    # observation for the known-finding shapes: did the addressee hold a sender key of this sender
                    # for this group when the stanza arrived?  (sender_keys table, read-only; anchor state of C03)
                    self.had_key[(d.dst.idx, len(w.observer.events[d.dst.idx]))] = \
                        w.observer.has_senderkey(d.dst, d.meta["group"], w.accounts[d.meta["sender"]].phone)
                at = (d.dst.idx, len(w.observer.events[d.dst.idx])) if w.observer is not None else None
                w.deliver(act[1])
                if at is not None and d.dst.stack is not None and d.kind == "message" and \
                        at[1] < len(w.observer.events[at[0]]):
                    w.observer.events[at[0]][at[1]]["sk_after"] = self.chains_of(d.dst)
        elif k == "dup":
            if act[1] < len(w.pending) and w.pending[act[1]].kind == "message":
                w.duplicate(act[1])
        elif k == "corrupt":
            if act[1] < len(w.pending) and w.pending[act[1]].kind == "message":
                w.corrupt(act[1], act[2])
        elif k == "restart":
            w.accounts[act[1]].restart()
        elif k == "drain":
            w.drain()


def generate_actions(ctx_rng, case, runner):
    """Drive the world once, choosing the schedule and fault placement online; returns the action list."""
    rng = ctx_rng
    acts = []
    n = case["n"]
    fault_budget = case.get("faults", 1)
    ops = list(case["ops"])

    def step(a):
        acts.append(a)
        runner.do(a)

    late = bool(case.get("late_dup"))     # the copy made by a `dup` is HELD: delivered after everything else
    hold_burst = bool(case.get("hold_burst"))   # the later stanzas of a burst are HELD across the retry exchange

    def release_served():
        """a held burst stanza is released once its addressee has been shown the message that was corrupted"""
        rec = runner.w.observer
        for d in runner.w.pending:
            h = d.meta.get("hold")
            if h and any(ev["tag"] == "deliver" and ev["id"] == h[1] for ev in rec.events[h[0]]):
                d.meta["hold"] = None

    def burst_fault():
        """corrupt a sender-key-only group stanza that has LATER siblings queued (same sender, group, addressee)
        and hold those siblings back"""
        nonlocal fault_budget
        pend = runner.w.pending
        cands = []
        for i in runner.w.messages_pending():
            d = pend[i]
            if d.meta.get("group") and is_bare_skmsg_node(d.node) and not _held(d) and not d.meta.get("corrupt"):
                sib = [e for e in pend if e is not d and e.kind == "message" and e.dst is d.dst and
                       e.meta.get("group") == d.meta["group"] and e.meta.get("sender") == d.meta["sender"] and
                       e.serial > d.serial and e.node["participant"] == d.node["participant"] and
                       is_bare_skmsg_node(e.node)]
                if sib:
                    cands.append((i, sib))
        if not cands:
            return False
        i, sib = rng.choice(cands)
        fault_budget -= 1
        mid = _mid_of(pend[i])
        for e in sib:
            e.meta["hold"] = (pend[i].dst.idx, mid)
        step(["corrupt", i, 0])
        return True

    def maybe_fault():
        nonlocal fault_budget
        mp = runner.w.messages_pending()
        if fault_budget > 0 and mp and rng.random() < case.get("fault_p", .25):
            if hold_burst:
                burst_fault()
                return
            if late:
                # prefer a group stanza that carries only a sender-key ciphertext (its addressee has to ask)
                bare = [i for i in mp if is_bare_skmsg_node(runner.w.pending[i].node)]
                k = rng.choice(bare) if bare and rng.random() < .8 else rng.choice(mp)
            else:
                k = rng.choice(mp)
            if runner.w.pending[k].meta.get("dup") or runner.w.pending[k].meta.get("corrupt"):
                return
            fault_budget -= 1
            if late or rng.random() < .5:
                step(["dup", k])
            else:
                step(["corrupt", k, rng.randrange(3)])

    def pick(final):
        """index of the next delivery; None = nothing to deliver now (only held copies are queued)"""
        pend = runner.w.pending
        if hold_burst:
            release_served()
        if late or hold_burst:
            live = [i for i, d in enumerate(pend) if not _held(d)]
            if live and rng.random() >= case.get("release_p", .03):
                return rng.choice(live) if case.get("reorder", True) else live[0]
            if not live and not final and rng.random() >= case.get("release_p", .03):
                return None
        return rng.randrange(len(pend)) if case.get("reorder", True) else 0

    for op in ops:
        if op[0] == "settle":
            step(["drain"])
            continue
        if op[0] == "restart":
            step(["drain"])            # restarts only while none of the party's stanzas is in flight
            step(op)
            step(["drain"])
            continue
        step(op)
        if len(op) > 4 and op[4] == "burst":
            continue                   # the next send follows immediately
        # deliver a random number of queued stanzas in random order (bursts stay queued)
        for _ in range(rng.choice([0, 1, 2, 3, 5, 8, 30])):
            maybe_fault()
            if not runner.w.pending:
                break
            k = pick(False)
            if k is None:
                break
            step(["deliver", k])
    guard = 0
    while runner.w.pending and guard < 3000:
        maybe_fault()
        step(["deliver", pick(True)])
        guard += 1
    return acts


def _held(d):
    return bool(d.meta.get("dup") or d.meta.get("hold"))


def is_bare_skmsg_node(node):
    encs = node.getAllChildren("enc")
    return bool(encs) and node.getChild("participants") is None and all(e["type"] == "skmsg" for e in encs)


def run_actions(ctx, case):
    r = Runner(ctx, case)
    try:
        for a in case["actions"]:
            r.do(a)
        if r.w.pending:
            r.w.drain()
    finally:
        r.w.close()
    return r


# ---------------------------------------------------------------------------------------------------
# abstraction of one account's trace to the model alphabet
# ---------------------------------------------------------------------------------------------------
def opt(x):
    return [] if x is None else [x]


def content_id(runner, raw):
    """which application payload these bytes are: message id, None for empty, 999999 for anything else"""
    if not raw:
        return None
    for m, s in runner.sends.items():
        if s["raw"] == raw:
            return m
    return 999999


def skdm_of(rec, pay):
    from yowsup.layers.protocol_messages.proto.e2e_pb2 import Message
    from axolotl.protocol.senderkeydistributionmessage import SenderKeyDistributionMessage
    m = Message()
    m.ParseFromString(pay["raw"])
    d = m.sender_key_distribution_message
    it = SenderKeyDistributionMessage(serialized=d.axolotl_sender_key_distribution_message).getIteration()
    return [rec.peer(d.group_id), it]


def abs_payload(runner, rec, pay):
    if not pay:
        return [[], []]
    return [[skdm_of(rec, pay)] if pay["skdm"] else [], opt(content_id(runner, pay.get("content", b"")))]


def abs_term_in(runner, rec, t):
    if t["kind"] == "skmsg":
        c = content_id(runner, (t.get("pay") or {}).get("content", b""))
        return [t.get("n", 0), bool(t.get("corrupt")), c if c is not None else 0]
    return [t["kind"] == "pkmsg", t.get("sid", 0), t.get("n", 0), bool(t.get("pkok", True)), bool(t.get("corrupt")),
            abs_payload(runner, rec, t.get("pay"))]


def entity_content(runner, ev):
    from yowsup.layers.protocol_messages.proto.e2e_pb2 import Message
    try:
        node = ev["obj"].toProtocolTreeNode()
        raw = ws._bytes(node.getChild("proto").getData())
    except Exception:
        return 999998
    m = Message()
    m.ParseFromString(raw)
    m.ClearField("sender_key_distribution_message")
    return content_id(runner, m.SerializeToString())


def abstract_account(runner, rec, idx):
    ins, outs, states, problems = [], [], [], []
    cur = None
    for ev in rec.events[idx]:
        tag = ev["tag"]
        if ev["dir"] == "in":
            x = None
            if tag == "send":
                s = runner.sends[ev["id"]]
                x = [0, [ev["id"], ev["peer"], s["ty"], s["mt"], ev["id"]]]
            elif tag == "keys":
                x = [1, ev["iq"], [[u["jid"], u.get("sid", 0)] for u in ev["users"] if u["haskey"]]]
            elif tag == "ginfo-result":
                x = [2, ev["iq"], ev["parts"]]
            elif tag == "message":
                encs = ev["encs"]
                if any(t.get("unknown") or t.get("unparsed") for t in encs):
                    problems.append("ciphertext of unknown origin in an incoming stanza")
                    encs = []
                pw = ([t for t in encs if t["kind"] == "pkmsg"] + [t for t in encs if t["kind"] == "msg"])[:1]
                sk = [t for t in encs if t["kind"] == "skmsg"][:1]
                isg = ev["group"] is not None
                x = [3, [ev["group"] if isg else ev["peer"], opt(ev["peer"] if isg else None), ev["id"],
                         0 if ev["type"] == "text" else 1, MT.get(encs[0]["mediatype"], 9) if encs else 0,
                         [abs_term_in(runner, rec, t) for t in pw], [abs_term_in(runner, rec, t) for t in sk]]]
            elif tag == "receipt":
                isg = ev["group"] is not None
                x = [4, ev["group"] if isg else ev["peer"], opt(ev["peer"] if isg else None), ev["id"],
                     opt(ev["count"] if ev["rtype"] == "retry" else None)]
            elif tag == "restart":
                x = [5]
            if x is None:
                cur = None
                continue
            ins.append(x)
            cur = []
            outs.append(cur)
            states.append(ev)
        else:
            o = None
            if tag == "getkeys":
                o = [0, ev["iq"], ev["jids"]]
            elif tag == "ginfo":
                o = [1, ev["iq"], ev["group"]]
            elif tag == "message":
                if ev["plain"]:
                    o = [3, [ev["id"], ev["peer"], 0 if ev["type"] == "text" else 1, 0, ev["id"]]]
                else:
                    pw, sk = [], []
                    for t in ev["encs"]:
                        if t.get("unparsed"):
                            problems.append("unparseable ciphertext sent")
                        if t["kind"] == "skmsg":
                            c = content_id(runner, (t.get("pay") or {}).get("content", b""))
                            sk.append([1, t.get("n", 0), c if c is not None else 0, MT.get(t["mediatype"], 9)])
                        else:
                            pw.append([0, opt(t.get("for")), t["kind"] == "pkmsg", t.get("to", 0), t.get("sid", 0),
                                       t.get("n", 0), abs_payload(runner, rec, t.get("pay")),
                                       MT.get(t["mediatype"], 9)])
                    o = [2, ev["peer"], ev["id"], 0 if ev["type"] == "text" else 1, opt(ev["participant"]), pw + sk]
            elif tag == "receipt":
                isg = ev["group"] is not None
                to, part = (ev["group"], opt(ev["peer"])) if isg else (ev["peer"], [])
                o = [5, to, part, ev["id"], ev["count"]] if ev["rtype"] == "retry" else [4, to, part, ev["id"]]
            elif tag == "err":
                o = [6, ev["peer"]]
            elif tag == "deliver":
                isg = ev["group"] is not None
                ent = ev["obj"]
                mt = MT.get(getattr(ent, "media_type", None), 9)
                o = [7, ev["group"] if isg else ev["peer"], opt(ev["peer"] if isg else None), ev["id"],
                     0 if ev["type"] == "text" else 1, mt, opt(entity_content(runner, ev))]
            elif tag == "topreceipt":
                isg = ev["group"] is not None
                o = [8, ev["group"] if isg else ev["peer"], opt(ev["peer"] if isg else None), ev["id"],
                     ev["rtype"] == "retry"]
            if o is None:
                continue
            if cur is None:
                problems.append("output %r after an input the model does not know" % (o,))
            else:
                cur.append(o)
    return ins, outs, states, problems


def norm(x):
    """bool -> int, tuples -> lists, recursively (sx has no booleans)"""
    if isinstance(x, bool):
        return int(x)
    if isinstance(x, (list, tuple)):
        return [norm(v) for v in x]
    return x


def canon_model_out(o):
    o = norm(o)
    if o and o[0] == 2:     # per-participant encs first (in order), skmsg last - as the harness lists them
        encs = o[5]
        o = o[:5] + [[e for e in encs if e[0] == 0] + [e for e in encs if e[0] == 1]]
    return o


def real_state(rec, acct, ev):
    sess = dict((c, [s for s, _ in sts]) for c, sts in ev.get("sess_after", {}).items() if sts)
    return sess


# ---------------------------------------------------------------------------------------------------
# property oracle on the observed run
# ---------------------------------------------------------------------------------------------------
def flatten_node(n, out):
    out.append(n.tag.encode())
    for k, v in n.attributes.items():
        out.append(str(k).encode("utf-8", "replace"))
        out.append(str(v).encode("utf-8", "replace"))
    d = n.getData()
    if d is not None:
        out.append(ws._bytes(d))
    for c in n.getAllChildren():
        flatten_node(c, out)


def needles(runner):
    """byte strings that must never leave a client: serialized payloads and their text fields"""
    from yowsup.layers.protocol_messages.proto.e2e_pb2 import Message
    res = []
    for mid, s in runner.sends.items():
        res.append((mid, "payload", s["raw"]))
        m = Message()
        m.ParseFromString(s["raw"])

        def walk(msg):
            for f, v in msg.ListFields():
                if f.type == f.TYPE_MESSAGE:
                    for x in (v if f.label == f.LABEL_REPEATED else [v]):
                        walk(x)
                elif f.type == f.TYPE_STRING and len(v.encode("utf-8")) >= 6:
                    res.append((mid, f.name, v.encode("utf-8")))
                elif f.type == f.TYPE_BYTES and len(v) >= 8:
                    res.append((mid, f.name, bytes(v)))
        walk(m)
    return res


def oracle(runner, rec, case):
    """-> list of (name, detail, key or None); runner.kf_claims lists, for every tentative known-finding key that
    rests on the model of the code as it is (group-dup-of-undecryptable-skmsg), (position in the result, account)"""
    bad = []
    runner.kf_claims = []
    w = runner.w
    nd = needles(runner)
    n = case["n"]
    faults = [a for a in case["actions"] if a[0] in ("dup", "corrupt")]
    # --- only ciphertext on the wire
    for idx in range(n):
        for ev in rec.events[idx]:
            if ev["dir"] == "out" and ev["at"] == "bot":
                node = ev["node"]
                parts = []
                flatten_node(node, parts)
                blob = b"\x00".join(parts)
                if node.tag == "message":
                    if node.getChild("proto") is not None or node.getChild("body") is not None or \
                            not (node.getAllChildren("enc") or node.getChild("participants")):
                        bad.append(("plaintext_child", "account %d sent message %s with children %r" %
                                    (idx, node["id"], [c.tag for c in node.getAllChildren()]), None))
                for mid, what, needle in nd:
                    if needle in blob:
                        bad.append(("plaintext_on_wire", "account %d: %s of message %d appears in a <%s> stanza" %
                                    (idx, what, mid, node.tag), None))
    # --- deliveries
    delivered = {}
    for idx in range(n):
        for ev in rec.events[idx]:
            if ev["tag"] == "deliver":
                delivered.setdefault((idx, ev["id"]), []).append(ev)
    for (idx, mid), evs in sorted(delivered.items()):
        s = runner.sends.get(mid)
        if s is None:
            bad.append(("stray_unknown_id", "account %d was shown unknown id %d" % (idx, mid), None))
            continue
        if idx not in s["recipients"]:
            bad.append(("stray", "account %d was shown message %d sent by %d to %r" % (idx, mid, s["from"], s["to"]),
                        None))
        if len(evs) > 1:
            key = None
            if s["group"] is not None and any(f[0] == "dup" for f in faults) and \
                    dup_while_keyless_shape(runner, rec, idx, mid, len(evs)):
                key = KF_DUP_SKMSG
            how = ["%s (%s)" % ("+".join(t["kind"] for t in sev["encs"]) or "?",
                              {True: "held a sender key", False: "no sender key", None: "?"}[runner.had_key.get((idx, si))])
                   for si, sev, souts in handled_stanzas(rec, idx, mid)
                   if any(o["tag"] == "deliver" and o["id"] == mid for o in souts)]
            if key:
                runner.kf_claims.append((len(bad), idx))
            bad.append(("shown_more_than_once", "account %d was shown message %d %d times (kind %s, to %r), while "
                        "handling stanzas with ciphertexts %r" % (idx, mid, len(evs), s["kind"], s["to"], how), key))
        for ev in evs:
            c = entity_content(runner, ev)
            g = ev["group"]
            exp_g = (1000 + int(s["group"][1:])) if s["group"] is not None else None
            if c != mid or ev["peer"] != s["from"] or g != exp_g:
                bad.append(("not_authentic", "account %d: message %d shown with content of %r, sender %r, group %r; "
                            "sent by %d to %r" % (idx, mid, c, ev["peer"], g, s["from"], s["to"]), None))
    # --- completeness at quiescence (the part that is only checked here: C03_complete_partial)
    restarted = set(a[1] for a in case["actions"] if a[0] == "restart")
    for mid, s in sorted(runner.sends.items()):
        for r in s["recipients"]:
            rcpts = [ev for ev in rec.events[s["from"]] if ev["tag"] == "topreceipt" and ev["id"] == mid and
                     ev["peer"] == r and ev["rtype"] == "delivery"]
            if len(delivered.get((r, mid), [])) == 0:
                key, why = lost_key(runner, rec, case, mid, r)
                if key:
                    runner.kf_claims.append((len(bad), r))
                if rcpts:
                    bad.append(("acknowledged_but_never_shown", "message %d (%s, %d -> %r) was never shown to the "
                                "application of account %d, yet the sender's application got %d's delivery "
                                "receipt for it%s" % (mid, s["kind"], s["from"], s["to"], r, r, why), key))
                else:
                    bad.append(("not_delivered", "message %d (%s, %d -> %r) never reached account %d%s" %
                                (mid, s["kind"], s["from"], s["to"], r, why), key))
            if len(delivered.get((r, mid), [])) >= 1 and not rcpts:
                bad.append(("receipt_missing", "sender %d never saw the delivery receipt of %d for message %d" %
                            (s["from"], r, mid), None))
            if not faults and len(rcpts) > 1:
                bad.append(("receipt_duplicated", "sender %d saw %d delivery receipts of %d for message %d in a "
                            "fault-free run" % (s["from"], len(rcpts), r, mid), None))
    # --- a stanza delivered twice by the server: second time a delivery receipt and nothing shown
    for idx in range(n):
        seen_stanzas = {}
        evs = rec.events[idx]
        for i, ev in enumerate(evs):
            if ev["dir"] == "in" and ev["tag"] == "message" and ev["encs"] and \
                    not any(t.get("corrupt") or t.get("unknown") for t in ev["encs"]):
                sig = (ev["id"], ev["peer"], ev["group"],
                       tuple((t["kind"], t.get("sid"), t.get("n"), t.get("sender")) for t in ev["encs"]))
                outs = []
                for o in evs[i + 1:]:
                    if o["dir"] == "in":
                        break
                    outs.append(o)
                acks = [o for o in outs if o["tag"] == "receipt" and o["rtype"] == "delivery"]
                shown = [o for o in outs if o["tag"] == "deliver"]
                if sig in seen_stanzas and seen_stanzas[sig]:
                    if shown or len(acks) != 1:
                        bad.append(("duplicate_not_reacknowledged", "account %d, second delivery of the stanza of "
                                    "message %d: shown %d, delivery receipts %d" %
                                    (idx, ev["id"], len(shown), len(acks)), None))
                elif sig in seen_stanzas and any(o["tag"] == "deliver" and o["id"] == ev["id"] for o in evs[:i]):
                    # the first delivery of this stanza could not be read (retry asked), the message was shown
                    # through the re-encryption since: the late copy must only be re-acknowledged
                    if shown or len(acks) != 1:
                        nshown = sum(1 for o in evs if o["tag"] == "deliver" and o["id"] == ev["id"])
                        key = None
                        if ev["group"] is not None and any(f[0] == "dup" for f in faults) and \
                                dup_while_keyless_shape(runner, rec, idx, ev["id"], nshown):
                            key = KF_DUP_SKMSG          # shape B: the key came the regular way in between
                            runner.kf_claims.append((len(bad), idx))
                        bad.append(("late_duplicate_shown_again", "account %d had asked for a retry of message %d "
                                    "and had been shown it through the answer; a copy of the ORIGINAL stanza (%s) "
                                    "delivered after that: shown %d more time(s), delivery receipts %d" %
                                    (idx, ev["id"], "+".join(t["kind"] for t in ev["encs"]), len(shown), len(acks)),
                                    key))
                else:
                    seen_stanzas[sig] = any(o["tag"] == "deliver" for o in outs)
    # --- retries: the first retry receipt an account sends for an id carries count 1
    for idx in range(n):
        first = {}
        for ev in rec.events[idx]:
            if ev["dir"] == "out" and ev["tag"] == "receipt" and ev["rtype"] == "retry" and ev["id"] not in first:
                first[ev["id"]] = ev["count"]
                if ev["count"] != 1:
                    bad.append(("retry_count", "account %d: first retry receipt for message %d has count %d" %
                                (idx, ev["id"], ev["count"]), None))
    # --- a corrupted ciphertext -> exactly one retry receipt with count 1, nothing shown
    for idx in range(n):
        for ev_i, ev in enumerate(rec.events[idx]):
            if ev["dir"] == "in" and ev["tag"] == "message" and any(t.get("corrupt") and not t.get("stale")
                                                                    for t in ev["encs"]):
                outs = []
                for o in rec.events[idx][ev_i + 1:]:
                    if o["dir"] == "in":
                        break
                    outs.append(o)
                looked = ([t for t in ev["encs"] if t["kind"] == "pkmsg"] + [t for t in ev["encs"]
                                                                           if t["kind"] == "msg"])[:1]
                hit = (looked and looked[0].get("corrupt")) or (not looked)
                retries = [o for o in outs if o["tag"] == "receipt" and o["rtype"] == "retry"]
                if hit and (len(retries) != 1 or retries[0]["count"] != 1 or
                            [o for o in outs if o["tag"] == "deliver"]):
                    bad.append(("retry_not_single", "account %d, corrupted message %d: retries %r, outputs %r" %
                                (idx, ev["id"], [r["count"] for r in retries], [o["tag"] for o in outs]), None))
    return bad


def handled_stanzas(rec, idx, mid):
    """every message stanza of id `mid` account idx handled, in order: (index of the event, event, what it put out
    while handling it).  (A parked stanza is handled when its key answer arrives; those outputs follow that later
    input and are not attributed here - C03's late-key histories never park.)"""
    evs = rec.events[idx]
    res = []
    for i, ev in enumerate(evs):
        if ev["dir"] == "in" and ev["tag"] == "message" and ev["id"] == mid:
            outs = []
            for o in evs[i + 1:]:
                if o["dir"] == "in":
                    break
                outs.append(o)
            res.append((i, ev, outs))
    return res


def is_bare_skmsg(ev):
    return bool(ev["encs"]) and all(t["kind"] == "skmsg" for t in ev["encs"])


def bare_skmsg_retry_seen(rec, idx, mid):
    """did account idx answer a sender-key-only stanza of message mid with a retry (it had no sender key)?"""
    return any(is_bare_skmsg(ev) and any(o["tag"] == "receipt" and o["rtype"] == "retry" for o in outs)
               for _, ev, outs in handled_stanzas(rec, idx, mid))


def dup_while_keyless_shape(runner, rec, idx, mid, total):
    """The history shapes of the OPEN finding group-dup-of-undecryptable-skmsg, and nothing wider.  Common to both:
    one of the two copies of the sender-key-only stanza of `mid` reached account idx while it held NO sender key of
    that sender (it asked for a retry), and the id then reaches the application through two different ciphertexts,
    which no ratchet can notice.
      A  both copies arrived keyless: two retry receipts, two directed re-encryptions, both shown;
      B  one copy arrived keyless (one retry receipt); idx then got the key the REGULAR way (the sender's stanzas
         were also reordered), so the other copy decrypts normally, and the re-encryption that answers the retry -
         arriving when idx already holds a key - is shown too (in either order).
    Every showing has to be accounted for this way (`total` = how often idx was shown `mid`): showings through
    re-encryptions <= retries asked while keyless, at most one showing through the sender-key-only stanza.
    NOT the finding - a new violation: idx was keyless when the re-encryption arrived (it got the key LATE, through
    the answer to its retry receipt) and a copy of the original stanza is shown nevertheless.  Then the chain it
    was given starts too early (C03_late_key_no_redelivery says this cannot happen for the code as it is)."""
    asked, shown_pw, shown_bare, late_key = 0, 0, 0, False
    for i, ev, outs in handled_stanzas(rec, idx, mid):
        bare = is_bare_skmsg(ev)
        intact = not any(t.get("corrupt") or t.get("unknown") for t in ev["encs"])
        had = runner.had_key.get((idx, i))
        nshow = sum(1 for o in outs if o["tag"] == "deliver" and o["id"] == mid)
        if bare:
            shown_bare += nshow
            if intact and had is False and any(o["tag"] == "receipt" and o["rtype"] == "retry" for o in outs):
                asked += 1
        else:
            shown_pw += nshow
            if nshow and had is not True:
                late_key = True
    if shown_pw + shown_bare != total or shown_pw > asked or shown_bare > 1:
        return False
    if shown_bare == 0:
        return asked >= 2                       # shape A
    return not late_key                         # shape B


def lost_key(runner, rec, case, mid, r):
    """-> (known-finding key or None, explanation).  The history shape of the OPEN finding
    group-skmsg-older-than-first-processed-distribution, and nothing wider: message mid was never shown to r although r
    handled an intact stanza of it carrying a sender-key ciphertext and answered with a plain delivery receipt (the
    duplicate branch), BECAUSE the chain r uses was started by the FIRST distribution message r processed - at a time
    it held NO chain for that sender - and that distribution message came from a LATER group message (the server
    delivered this sender's first group stanzas out of order): its position lies above the lost stanza's iteration.
    NOT the finding: r already HELD a chain that could read the stanza and lost that position to a distribution
    message it processed afterwards (C03_redistribution_keeps_position: a re-distribution leaves the chain in use
    untouched) - a new violation."""
    evs = rec.events[r]
    for i, ev in enumerate(evs):
        if ev["dir"] == "in" and ev["tag"] == "message" and ev["id"] == mid and \
                any(t["kind"] == "skmsg" for t in ev["encs"]) and not any(t.get("corrupt") for t in ev["encs"]):
            outs = []
            for o in evs[i + 1:]:
                if o["dir"] == "in":
                    break
                outs.append(o["tag"] + ":" + str(o.get("rtype")))
            if outs != ["receipt:delivery"]:
                continue
            lost_iter = [t.get("n", 0) for t in ev["encs"] if t["kind"] == "skmsg"][0]
            # the first distribution message of this sender for this group that r processed, and whether r held a
            # chain then
            first = None
            for j, e2 in enumerate(evs):
                if e2["dir"] == "in" and e2["tag"] == "message" and e2["group"] == ev["group"] and \
                        e2["peer"] == ev["peer"]:
                    pw = [t for t in e2["encs"] if t["kind"] in ("pkmsg", "msg") and not t.get("corrupt") and
                          not t.get("unknown") and (t.get("pay") or {}).get("skdm")]
                    if pw:
                        try:
                            first = (j, skdm_of(rec, pw[0]["pay"])[1], runner.had_key.get((r, j)))
                        except Exception:
                            first = (j, None, runner.had_key.get((r, j)))
                        break
            if first is None or first[1] is None:
                return None, "; account %d acknowledged an intact stanza of it as a duplicate" % r
            j, pos, had = first
            if had is False and lost_iter < pos and (j < i or j == i):
                return KF_REORDER, ""
            return None, ("; account %d acknowledged an intact stanza of it (iteration %d) as a duplicate although the "
                          "chain it first obtained for this sender starts at %d%s: it LOST its chain position to a "
                          "later distribution message" % (r, lost_iter, pos, "" if had is False else
                                                          " (it already held a chain then)"))
    return None, ""


# ---------------------------------------------------------------------------------------------------
# cases
# ---------------------------------------------------------------------------------------------------
def random_case(rng, tier):
    n = rng.choice([2, 3, 3, 4] if tier != "quick" else [2, 3, 3, 3, 4])
    groups = []
    if n >= 2 and rng.random() < .8:
        members = sorted(rng.sample(range(n), rng.randint(2, n)))
        groups.append(members)
    ops = []
    nsend = rng.randint(2, 8 if tier == "quick" else 10)
    for _ in range(nsend):
        a = rng.randrange(n)
        if groups and a in groups[0] and rng.random() < .5:
            t = "g0"
        else:
            t = rng.choice([x for x in range(n) if x != a])
        ops.append(["send", a, t, rng.choice(KINDS)])
        if rng.random() < .08:
            ops.append(["restart", rng.randrange(n)])
    return {"name": "random", "n": n, "groups": groups, "ops": ops, "faults": 1 if rng.random() < .7 else 0,
            "fault_p": .25, "reorder": rng.random() < .8, "pad_seed": rng.randrange(1 << 30),
            "entity_seed": rng.randrange(1 << 30)}


def retrypath_case(rng, tier):
    """random scripts aimed at the LATE-KEY histories: the sender s already has a pairwise session with group member
    r (they talked 1:1, either direction) while another member has none, so s's first group message reaches r as a
    sender-key-only stanza and r gets the sender key through the answer to its retry receipt; the one fault is a
    duplicate whose copy the server holds back and delivers late (after the retry exchange, usually after all
    further traffic)."""
    n = rng.choice([3, 3, 4])
    members = list(range(n)) if (n == 3 or rng.random() < .6) else sorted(rng.sample(range(n), 3))
    s = rng.choice(members)
    others = [m for m in members if m != s]
    rng.shuffle(others)
    known = others[:rng.randint(1, len(others) - 1)]        # at least one member stays without a session
    ops = []
    for r in known:
        way = rng.randrange(3)
        if way in (0, 2):
            ops.append(["send", s, r, rng.choice(KINDS)])
        if way in (1, 2):
            ops.append(["send", r, s, rng.choice(KINDS)])
    ops.append(["settle"])
    ops.append(["send", s, "g0", rng.choice(KINDS)])
    for _ in range(rng.randint(0, 4 if tier == "quick" else 6)):
        x = rng.random()
        if x < .45:
            ops.append(["send", s, "g0", rng.choice(KINDS)])
        elif x < .75:
            ops.append(["send", rng.choice(others), "g0", rng.choice(KINDS)])
        else:
            a = rng.choice(members)
            ops.append(["send", a, rng.choice([m for m in range(n) if m != a]), rng.choice(KINDS)])
    return {"name": "random-late-key", "n": n, "groups": [members], "ops": ops, "faults": 1, "fault_p": .5,
            "late_dup": True, "release_p": rng.choice([0, .03, .03, .1]), "reorder": rng.random() < .5,
            "pad_seed": rng.randrange(1 << 30), "entity_seed": rng.randrange(1 << 30)}


def late_key_cases():
    """DIRECTED: the duplicate of the original group stanza reaches r AFTER r's application has been shown the
    message through the answer to its retry receipt (r had a pairwise session with the sender, another member had
    none).  That late copy must only be re-acknowledged.  2-, 3- and 4-account groups, text and media, the copy
    delivered right after the retried delivery and after further group traffic, one and two members on the retry
    path, two group messages before the first retry is served.  (In a 2-account group every member gets the key
    with the first message; the late copy is an ordinary duplicate there.)"""
    cs = []

    def talk(pairs):
        acts = []
        for a, b in pairs:
            acts += [["send", a, b, "text"], ["drain"], ["send", b, a, "text"], ["drain"]]
        return acts
    for kind in ("text", "image"):
        cs.append({"name": "late-dup-2-" + kind, "n": 2, "groups": [[0, 1]], "actions":
                   talk([(0, 1)]) + [["send", 0, "g0", kind], ["until_msg", 1], ["dup_to", 1], ["drain_hold"],
                                     ["send", 0, "g0", "text"], ["drain_hold"], ["drain"]]})
    for kind in ("text", "image", "location", "url"):
        # the copy right after the retried delivery
        cs.append({"name": "late-dup-3-%s-right-after" % kind, "n": 3, "groups": [[0, 1, 2]], "actions":
                   talk([(0, 1)]) + [["send", 0, "g0", kind], ["until_msg", 1], ["dup_to", 1], ["until_shown", 1],
                                     ["deliver_held"], ["drain"]]})
    for kind in ("text", "contact"):
        # ... after further group traffic by the sender and by r
        cs.append({"name": "late-dup-3-%s-after-traffic" % kind, "n": 3, "groups": [[0, 1, 2]], "actions":
                   talk([(0, 1)]) + [["send", 0, "g0", kind], ["until_msg", 1], ["dup_to", 1], ["drain_hold"],
                                     ["send", 0, "g0", "text"], ["drain_hold"], ["send", 1, "g0", "image"],
                                     ["drain_hold"], ["send", 0, "g0", "location"], ["drain_hold"], ["drain"]]})
    # r initiated the 1:1 contact; the sender is not the group's creator
    cs.append({"name": "late-dup-3-r-initiated", "n": 3, "groups": [[0, 1, 2]], "actions":
               [["send", 2, 1, "text"], ["drain"], ["send", 1, "g0", "exttext"], ["until_msg", 2], ["dup_to", 2],
                ["drain_hold"], ["send", 1, "g0", "text"], ["drain_hold"], ["drain"]]})
    # two group messages before the first retry is served: both asked for, the copy of either one comes late
    for which in (1, 2):
        cs.append({"name": "late-dup-3-burst-%d" % which, "n": 3, "groups": [[0, 1, 2]], "actions":
                   talk([(0, 1)]) + [["send", 0, "g0", "text"], ["until_msg", 1], ["send", 0, "g0", "image"],
                                     ["until_msgs", 1, 2], ["dup_to", 1, 2 + which], ["drain_hold"], ["drain"]]})
    # 4 accounts: two members on the retry path, the copy goes to one of them; a 3-member group inside 4 accounts
    for kind in ("text", "image"):
        cs.append({"name": "late-dup-4-" + kind, "n": 4, "groups": [[0, 1, 2, 3]], "actions":
                   talk([(0, 1), (0, 2)]) + [["send", 0, "g0", kind], ["until_msg", 2], ["dup_to", 2],
                                             ["drain_hold"], ["send", 0, "g0", "text"], ["drain_hold"], ["drain"]]})
    cs.append({"name": "late-dup-4-subgroup", "n": 4, "groups": [[1, 2, 3]], "actions":
               talk([(3, 1), (0, 3)]) + [["send", 3, "g0", "location"], ["until_msg", 1], ["dup_to", 1],
                                         ["until_shown", 1], ["deliver_held"], ["send", 3, "g0", "text"], ["drain"]]})
    return cs


def burst_hold_case(rng, tier):
    """random scripts aimed at a RE-DISTRIBUTION that overtakes queued group stanzas: the addressees hold the
    sender's key (a first group message was delivered), the sender emits a burst of 2-4 group messages, one
    sender-key ciphertext of the burst that still has later siblings queued is corrupted, and the server holds those
    siblings back until the addressee has been shown the corrupted message through the retry exchange (whose answer
    carries the sender's key again, at its CURRENT position)."""
    n = rng.choice([2, 3, 3, 4])
    members = list(range(n)) if (n <= 3 or rng.random() < .6) else sorted(rng.sample(range(n), 3))
    s = rng.choice(members)
    others = [m for m in members if m != s]
    ops = [["send", s, "g0", rng.choice(KINDS)], ["settle"]]
    if rng.random() < .4:
        ops += [["send", rng.choice(others), "g0", rng.choice(KINDS)], ["settle"]]
    nb = rng.randint(2, 4)
    for k in range(nb):
        ops.append(["send", s, "g0", rng.choice(KINDS)] + (["burst"] if k < nb - 1 else []))
    for _ in range(rng.randint(0, 3)):
        x = rng.random()
        if x < .5:
            ops.append(["send", s, "g0", rng.choice(KINDS)])
        elif x < .8:
            ops.append(["send", rng.choice(others), "g0", rng.choice(KINDS)])
        else:
            a = rng.choice(members)
            ops.append(["send", a, rng.choice([m for m in range(n) if m != a]), rng.choice(KINDS)])
    return {"name": "random-burst-hold", "n": n, "groups": [members], "ops": ops, "faults": 1, "fault_p": .6,
            "hold_burst": True, "release_p": rng.choice([0, 0, .03]), "reorder": rng.random() < .6,
            "pad_seed": rng.randrange(1 << 30), "entity_seed": rng.randrange(1 << 30)}


def redistribution_cases():
    """DIRECTED: B holds A's sender key (a first group message was delivered); A sends a burst of group messages; the
    ciphertext of one of them towards B is corrupted; the retry exchange is completed (B's retry receipt reaches
    A, A's answer - key at A's CURRENT position + content - reaches B) while the LATER burst stanzas are still
    queued at the server; then they are delivered.  B must keep its chain position: every held stanza is shown."""
    cs = []

    def script(n, members, a, b, kinds, bad, name):
        first = 1
        acts = [["send", a, "g0", "text"], ["drain"]]
        mids = [first + 1 + k for k in range(len(kinds))]
        for k, kind in enumerate(kinds):
            acts.append(["send", a, "g0", kind])
        acts.append(["until_msgs", b, len(kinds)])
        later = [m for m in mids if m > mids[bad]]
        acts += [["corrupt_to", b, mids[bad], 0], ["hold_msgs", b, later], ["drain_hold"], ["drain"],
                 ["send", a, "g0", "text"], ["drain"]]
        return {"name": name, "n": n, "groups": [members], "actions": acts}
    cs.append(script(2, [0, 1], 0, 1, ["text", "text"], 0, "redist-2-text-first"))
    cs.append(script(2, [0, 1], 0, 1, ["image", "location", "text"], 0, "redist-2-media-first"))
    cs.append(script(2, [0, 1], 1, 0, ["text", "contact", "url"], 1, "redist-2-middle"))
    cs.append(script(3, [0, 1, 2], 0, 2, ["text", "image"], 0, "redist-3-first"))
    cs.append(script(3, [0, 1, 2], 1, 0, ["exttext", "text", "image"], 1, "redist-3-middle"))
    cs.append(script(4, [0, 1, 2, 3], 0, 3, ["text", "text", "location"], 0, "redist-4-first"))
    cs.append(script(4, [0, 1, 2, 3], 2, 1, ["image", "text", "text"], 1, "redist-4-middle"))
    cs.append(script(4, [1, 2, 3], 3, 1, ["url", "text"], 0, "redist-4-subgroup-first"))
    return cs


def scripted_cases():
    cs = []
    # first group MEDIA message to a participant without a session (the repaired media-layer defect)
    cs.append({"name": "group-first-media", "n": 3, "groups": [[0, 1, 2]],
               "actions": [["send", 0, 1, "text"], ["drain"], ["send", 1, 0, "text"], ["drain"],
                           ["send", 0, "g0", "image"], ["drain"], ["send", 0, "g0", "location"], ["drain"],
                           ["send", 2, "g0", "contact"], ["drain"], ["send", 1, "g0", "url"], ["drain"]]})
    # every kind 1:1 and to a group, replies, a restart in between
    acts = []
    for k in ("text", "exttext", "image", "location", "contact", "url"):
        acts += [["send", 0, 1, k], ["send", 1, 0, k], ["drain"], ["send", 0, "g0", k], ["drain"]]
    acts += [["restart", 1], ["drain"], ["send", 1, "g0", "text"], ["send", 0, 1, "image"], ["drain"]]
    cs.append({"name": "all-kinds", "n": 2, "groups": [[0, 1]], "actions": acts})
    # faults, one per script
    cs.append({"name": "dup-1to1", "n": 2, "groups": [], "actions":
               [["send", 0, 1, "text"], ["deliver", 0], ["deliver", 0], ["dup", 0], ["drain"],
                ["send", 1, 0, "image"], ["drain"]]})
    cs.append({"name": "corrupt-first-pkmsg", "n": 2, "groups": [], "actions":
               [["send", 0, 1, "text"], ["deliver", 0], ["deliver", 0], ["corrupt", 0, 0], ["drain"],
                ["send", 0, 1, "text"], ["drain"]]})
    cs.append({"name": "corrupt-skmsg", "n": 2, "groups": [[0, 1]], "actions":
               [["send", 0, "g0", "text"], ["drain"], ["send", 0, "g0", "image"], ["deliver", 0],
                ["corrupt", 0, 0], ["drain"]]})
    # burst before the key directory answers
    cs.append({"name": "burst", "n": 2, "groups": [], "actions":
               [["send", 0, 1, "text"], ["send", 0, 1, "image"], ["send", 0, 1, "text"], ["drain"],
                ["send", 1, 0, "text"], ["drain"]]})
    # the open finding: server duplicates a sender-key-only stanza the recipient cannot decrypt yet
    cs.append({"name": "kf-dup-bare-skmsg", "n": 3, "groups": [[0, 1, 2]], "actions":
               [["send", 0, 1, "text"], ["drain"], ["send", 1, 0, "text"], ["drain"],
                ["send", 0, "g0", "text"], ["deliver", 0], ["deliver", 0], ["deliver", 0]] +
               [["dup_to", 1], ["drain"]]})
    # the same open finding, its second shape (found by the thorough tier): the first copy of the sender-key-only
    # stanza of message 2 arrives BEFORE the stanza that carries the key (keyless -> retry asked), then the key
    # arrives the regular way, the held copy decrypts normally, and the answer to the retry is shown too
    cs.append({"name": "kf-dup-keyless-then-regular-key", "n": 2, "groups": [[0, 1]], "actions":
               [["send", 1, "g0", "text"], ["until_msg", 0], ["send", 1, "g0", "text"], ["until_msgs", 0, 2],
                ["dup_to", 0, 2], ["deliver_msg", 0, 2], ["deliver_msg", 0, 1], ["deliver_held"], ["drain"]]})
    # the open finding: a sender's two first group stanzas delivered in the wrong order
    cs.append({"name": "kf-reorder-first-group-messages", "n": 2, "groups": [[0, 1]], "actions":
               [["send", 0, "g0", "text"], ["send", 0, "g0", "text"], ["until_msgs", 1, 2], ["deliver_msg", 1, 2],
                ["drain"]]})
    return cs + late_key_cases() + redistribution_cases()


def prepare(ctx, case, rng):
    """make sure the case has an explicit action list (generated online on first run)"""
    if "actions" in case:
        return case, None
    r = Runner(ctx, case)
    try:
        acts = generate_actions(rng, case, r)
    finally:
        r.w.close()
    full = dict(case, actions=acts)
    return full, r


def _mid_of(d):
    i = d.meta.get("id") or ""
    return int(i[1:]) if i[:1] == "m" and i[1:].isdigit() else None


def expand_special(runner, act):
    """scripted actions that name a queued stanza by what it is -> explicit actions (a list; they are recomputed
    after each one has run, see run_case):
       ["dup_to", idx(, mid)]      duplicate the first queued message stanza addressed to account idx (of message mid)
       ["deliver_msg", idx, mid]   deliver the first queued stanza of message mid addressed to idx
       ["deliver_held"]            deliver the first queued copy made by a `dup`
       ["corrupt_to", idx, mid, w] corrupt ciphertext w of the first queued stanza of message mid addressed to idx
       ["hold_msgs", idx, [mids]]  mark the queued stanzas of those messages addressed to idx as held (no action)
    the looping ones (until_msg, until_msgs, until_shown, drain_hold, drain) are expanded in run_case"""
    w = runner.w
    if act[0] == "dup_to":
        for i in w.messages_pending():
            d = w.pending[i]
            if d.dst.idx == act[1] and not d.meta.get("dup") and (len(act) < 3 or _mid_of(d) == act[2]):
                return ["dup", i]
        return None
    if act[0] == "deliver_msg":
        for i in w.messages_pending():
            if w.pending[i].dst.idx == act[1] and _mid_of(w.pending[i]) == act[2]:
                return ["deliver", i]
        return None
    if act[0] == "deliver_held":
        for i, d in enumerate(w.pending):
            if d.meta.get("dup"):
                return ["deliver", i]
        return None
    if act[0] == "corrupt_to":          # ["corrupt_to", idx, mid, which]
        for i in w.messages_pending():
            d = w.pending[i]
            if d.dst.idx == act[1] and _mid_of(d) == act[2] and not d.meta.get("corrupt"):
                return ["corrupt", i, act[3] if len(act) > 3 else 0]
        return None
    if act[0] == "hold_msgs":           # ["hold_msgs", idx, [mids]]: those queued stanzas stay queued until `drain`
        for i in w.messages_pending():
            d = w.pending[i]
            if d.dst.idx == act[1] and _mid_of(d) in act[2]:
                d.meta["hold"] = (act[1], 0)
        return None
    return act


def loop_special(runner, act):
    """next explicit action of a looping scripted action, None when its condition is reached:
       ["drain"]                 FIFO until nothing is queued
       ["drain_hold"]            FIFO, but the copies made by `dup` and the stanzas marked by hold_msgs stay queued
       ["until_msg", idx]        FIFO (copies held) until a message stanza for account idx is queued
       ["until_msgs", idx, k]    ... until k of them are
       ["until_shown", idx]      FIFO (copies held) until the application of idx has been shown the newest message
       ["settle"]                = drain (used between the ops of a generated script)"""
    w = runner.w
    k = act[0]
    live = [i for i, d in enumerate(w.pending) if not _held(d)]
    if k in ("drain", "settle"):
        return ["deliver", 0] if w.pending else None
    if not live:
        return None
    if k in ("until_msg", "until_msgs"):
        want = act[2] if k == "until_msgs" else 1
        have = [i for i in live if w.pending[i].kind == "message" and w.pending[i].dst.idx == act[1]]
        if len(have) >= want:
            return None
    if k == "until_shown":
        rec = w.observer
        if any(ev["tag"] == "deliver" and ev["id"] == runner.mid for ev in rec.events[act[1]]):
            return None
    return ["deliver", live[0]]


LOOPING = ("drain", "settle", "drain_hold", "until_msg", "until_msgs", "until_shown")


def _modelled(d):
    """queued deliveries the Coq world model has too (it has no acks and no key-upload answers)"""
    return d.kind in ("message", "receipt") or (d.kind == "iq-result" and d.meta.get("req") in ("getkeys", "groupinfo"))


def world_action(runner, act):
    """the action of the Coq world model (C03WorldModel.waction) matching real action `act`, computed BEFORE it runs"""
    w = runner.w
    k = act[0]
    if k in ("deliver", "dup", "corrupt"):
        i = act[1]
        if i >= len(w.pending) or not _modelled(w.pending[i]):
            return None
        j = sum(1 for d in w.pending[:i] if _modelled(d))
        if k == "deliver":
            return [1, j]
        if w.pending[i].kind != "message":
            return None
        if k == "dup":
            return [2, j]
        encs = w.pending[i].node.getAllChildren("enc")
        return [3, j, encs[act[2] % len(encs)]["type"] == "skmsg"]
    if k == "restart":
        return [4, act[1]]
    return None


def run_case(ctx, case):
    """execute the action list; `drain` is expanded into explicit deliveries.  Returns the runner, the explicit
    action list and the matching action list of the Coq world model."""
    r = Runner(ctx, case)
    done, wacts = [], []

    def one(a):
        wa = world_action(r, a)
        done.append(a)
        r.do(a)
        if a[0] == "send":
            snd = r.sends[r.mid]
            to = (1000 + int(a[2][1:])) if isinstance(a[2], str) else a[2]
            wa = [0, a[1], [r.mid, to, snd["ty"], snd["mt"], r.mid]]
        if wa is not None:
            wacts.append(wa)
    try:
        for a in case["actions"]:
            if a[0] in LOOPING:
                n = 0
                while n < 5000:
                    x = loop_special(r, a)
                    if x is None:
                        break
                    one(x)
                    n += 1
            else:
                a = expand_special(r, a)
                if a is not None:
                    one(a)
        n = 0
        while r.w.pending and n < 5000:
            one(["deliver", 0])
            n += 1
    finally:
        r.w.close()
    r.wacts = wacts
    return r, done


def app_events_real(runner, rec, idx):
    out = []
    for ev in rec.events[idx]:
        if ev["tag"] == "deliver":
            isg = ev["group"] is not None
            mt = MT.get(getattr(ev["obj"], "media_type", None), 9)
            out.append([7, ev["group"] if isg else ev["peer"], opt(ev["peer"] if isg else None), ev["id"],
                        0 if ev["type"] == "text" else 1, mt, opt(entity_content(runner, ev))])
        elif ev["tag"] == "topreceipt":
            isg = ev["group"] is not None
            out.append([8, ev["group"] if isg else ev["peer"], opt(ev["peer"] if isg else None), ev["id"],
                        int(ev["rtype"] == "retry")])
    return out


def compare_world(model, runner, rec, case):
    """run the Coq WORLD model (accounts + server) on the same action list; every application must see the same
    entities and receipts in the same order, and the server queue must drain in both"""
    groups = [[1000 + k, list(m)] for k, m in enumerate(case.get("groups", []))]
    arg = [groups, list(range(case["n"])), runner.wacts]
    res = model.call("run_world", arg)
    if isinstance(res, tuple):
        runner.world_differs = None
        return ["world model error %r" % (res,)]

    def per_account(res):
        per = dict((i, []) for i in range(case["n"]))
        for acct, outs in res[0]:
            for o in outs:
                if o[0] in (7, 8):
                    per.setdefault(acct, []).append(norm(o))
        return per
    per = per_account(res)
    diffs = []
    real = dict((idx, norm(app_events_real(runner, rec, idx))) for idx in range(case["n"]))
    runner.world_differs = set()
    for idx in range(case["n"]):
        if real[idx] != per[idx]:
            runner.world_differs.add(idx)
            diffs.append("account %d application events:\n impl  %r\n world model %r" % (idx, real[idx], per[idx]))
    if res[1] != 0:
        diffs.append("world model queue not drained: %d left" % res[1])
    if diffs:
        # diagnosis only: does the code behave like the refuted variant with a memoised distribution message?
        try:
            alt = model.call("run_world_cached", arg)
            if not isinstance(alt, tuple) and all(real[i] == per_account(alt)[i] for i in range(case["n"])):
                diffs[0] += ("\n diagnosis: every application saw exactly what the model VARIANT with a memoised "
                             "sender-key distribution message predicts (C03ChainModel.pos_cached: the chain position "
                             "sent to a late member is the one of the first use, not the current one - refuted by "
                             "C03_chain_cached_position_refuted)")
        except Exception:
            pass
    return diffs


def check_case(ctx, model, case, stats, guard=True):
    runner, done = run_case(ctx, case)
    case = dict(case, actions=done)
    rec = runner.w.observer
    found = []
    verdicts = [list(v) for v in oracle(runner, rec, case)]
    # the open duplicate finding is claimed only for what the MODEL OF THE CODE AS IT IS does too: the extracted world
    # model, run on this very action list, must show that account the same entities (it reproduces the finding's
    # histories; C03_late_key_no_redelivery proves it never shows a late copy to a member that got the key late).
    # No model, or another prediction -> not the listed finding, a new violation.
    runner.world_differs = None
    wdiffs = compare_world(model, runner, rec, case) if model is not None else []
    for pos, acct in runner.kf_claims:
        if runner.world_differs is None or acct in runner.world_differs:
            verdicts[pos][1] += ("  [not the listed finding %s: the model of the code as it is shows this account "
                                 "something else on this history]" % verdicts[pos][2])
            verdicts[pos][2] = None
    if not any(v[0] in ("shown_more_than_once", "late_duplicate_shown_again") and v[2] is None for v in verdicts):
        wdiffs = [d.split("\n diagnosis:")[0] for d in wdiffs]      # the memoised-key hint is about double showings
    for name, detail, key in verdicts:
        found.append(("oracle", name, detail, key))
    for p in rec.problems:
        found.append(("correspondence", "recorder", p, None))
    for idx in range(case["n"]):
        ins, outs, states, problems = abstract_account(runner, rec, idx)
        for p in problems:
            found.append(("correspondence", "abstraction", "account %d: %s" % (idx, p), None))
        stats["inputs"] += len(ins)
        if model is None or not ins:
            continue
        res = model.call("run_account", [idx, guard, ins])
        if isinstance(res, tuple) or len(res) != len(ins):
            found.append(("correspondence", "model-error", repr(res)[:300], None))
            continue
        for k, r in enumerate(res):
            mo = [canon_model_out(o) for o in r[0]]
            io = [norm(o) for o in outs[k]]
            msess = dict((c, list(s)) for c, s in r[1][0] if s)
            rsess = real_state(rec, runner.w.accounts[idx], states[k])
            rchain = states[k].get("sk_after")
            mchain = sorted(norm(r[1][3])) if len(r[1]) > 3 else None
            if rchain is not None and mchain is not None and rchain != mchain:
                found.append(("correspondence", "chain-position",
                              "account %d after input #%d %r: sender-key chains held [pairkey(group, sender), position "
                              "of the chain in use, states stored]\n impl  %r\n model %r" %
                              (idx, k, ins[k], rchain, mchain), None))
                break
            if io != mo or msess != rsess:
                found.append(("correspondence", "account-step",
                              "account %d input #%d %r:\n impl outputs %r sess %r\n model outputs %r sess %r" %
                              (idx, k, ins[k], io, rsess, mo, msess), None))
                break
            for o in mo:
                stats["outs"][o[0]] = stats["outs"].get(o[0], 0) + 1
            stats["ins"][ins[k][0]] = stats["ins"].get(ins[k][0], 0) + 1
    if model is not None:
        for d in wdiffs:
            found.append(("correspondence", "world-model", d, None))
        stats["world_actions"] = stats.get("world_actions", 0) + len(runner.wacts)
    return case, found, runner


def probe_axolotl_padding(ctx):
    """Reproduce, without the shim, the pinned python-axolotl's aligned-plaintext defect through yowsup's own
    AxolotlManager.encrypt/decrypt path.  Returns a description when it is present."""
    import axolotl.sessioncipher as sc
    orig = ws.shim_axolotl_padding()
    cur = sc.AESCipher.encrypt
    sc.AESCipher.encrypt = orig
    try:
        c = sc.AESCipher(b"k" * 32, b"i" * 16)
        for msg_len in (15, 31):
            padded = b"m" * msg_len + bytes([1])            # yowsup: message + one padding byte of value 1
            try:
                out = c.decrypt(c.encrypt(padded))
            except ValueError as e:
                return "encrypt/decrypt of a %d-byte padded plaintext: %s" % (len(padded), e)
            if out != padded:
                return "a %d-byte padded plaintext decrypts to %d bytes" % (len(padded), len(out))
    finally:
        sc.AESCipher.encrypt = cur
    return None


def run(ctx):
    ctx.prove()
    exe = ctx.build_model("C03")
    model = modelrun.Model(exe) if exe else None
    stats = {"inputs": 0, "outs": {}, "ins": {}}
    cases = scripted_cases()
    ndirected = len(cases)
    nrand = 120 if ctx.tier == "quick" else 1400
    nlate = 40 if ctx.tier == "quick" else 300
    nburst = 30 if ctx.tier == "quick" else 250
    late_rng = random.Random(ctx.rng.randrange(1 << 30))
    for k in range(nrand):
        cases.append(random_case(ctx.rng, ctx.tier))
        if k % 3 == 0 and nlate > 0:
            nlate -= 1
            cases.append(retrypath_case(late_rng, ctx.tier))
        if k % 3 == 1 and nburst > 0:
            nburst -= 1
            cases.append(burst_hold_case(late_rng, ctx.tier))
    mism, nontrivial, distinct = 0, 0, set()
    nfaults = {"dup": 0, "corrupt": 0}
    for ci, case in enumerate(cases):
        try:
            full, _ = prepare(ctx, case, random.Random(ctx.rng.randrange(1 << 30)))
            full, found, runner = check_case(ctx, model, full, stats)
        except Exception:
            import traceback
            full, found = case, [("oracle", "exception", traceback.format_exc()[-1800:], None)]
        acts = full.get("actions", [])
        key = json.dumps(acts)
        if key not in distinct:
            distinct.add(key)
            if any(a[0] == "send" and isinstance(a[2], str) for a in acts) or \
                    any(a[0] in ("dup", "corrupt", "restart") for a in acts):
                nontrivial += 1
        for a in acts:
            if a[0] in nfaults:
                nfaults[a[0]] += 1
        if found:
            if any(k == "correspondence" for k, _, _, _ in found):
                mism += 1
            unknown = [f for f in found if not (f[3] and ctx.known_match(f[3]))]
            for f in found:
                if f[3] and ctx.known_match(f[3]):
                    ctx.violation("oracle:C03." + f[1], {"case": full, "finding": list(f[:3])}, key=f[3])
            # a correspondence difference that is only the echo of a listed finding is not reported twice
            if unknown and all(f[0] == "correspondence" for f in unknown) and len(unknown) < len(found) and False:
                unknown = []
            if unknown:
                k0, n0, d0, _ = unknown[0]
                small = dict((k, v) for k, v in full.items() if k != "ops")
                ctx.violation("%s:C03.%s" % (k0, n0),
                              {"case": small, "findings": [list(f[:3]) for f in unknown][:6]},
                              found_input=any(f[0] == "oracle" for f in unknown))
        # stop early only with a CONCRETE failing script in hand: when the model<->code correspondence broke
        # but no oracle failed yet, the search goes on through all directed cases and a share of the random ones
        with_input = sum(1 for v in ctx.violations if v["found_input"])
        if len(ctx.violations) >= 3 and (with_input >= 1 or ci >= ndirected + (60 if ctx.tier == "quick" else 400)):
            break
        if ci % 29 == 0:
            ctx.add_sample({"n": full["n"], "groups": full.get("groups"), "actions": acts[:10]})
    pad = probe_axolotl_padding(ctx)
    if pad:
        ctx.violation("oracle:C03.axolotl_aligned_plaintext", {"detail": pad}, key=KF_AXOLOTL_PAD)
    if model:
        model.close()
        ctx.ties["correspondence"] = "ok" if mism == 0 else "broken"
    if not ctx.proof_ok and not ctx.violations:
        ctx.tie_broken_without_input("theorem:" + ctx.failing_theorem(), ctx.ties.get("proof"))
    if model is None and not ctx.violations:
        ctx.tie_broken_without_input("model-build:C03", ctx.ties.get("model-build:C03"))
    ctx.coverage["evaluations"] = len(cases)
    ctx.coverage["distinct_nontrivial"] = nontrivial
    ctx.coverage["account_inputs_replayed_through_model"] = stats["inputs"]
    ctx.coverage["model_input_kinds"] = dict((["app-send", "keys", "group-info", "message", "receipt", "restart"][k], v)
                                             for k, v in sorted(stats["ins"].items()))
    ctx.coverage["model_output_kinds"] = dict((["getkeys", "groupinfo", "enc-message", "plain-message", "receipt",
                                                "retry", "error", "deliver", "receipt-to-app"][k], v)
                                              for k, v in sorted(stats["outs"].items()))
    ctx.coverage["faults_injected"] = nfaults
    ctx.coverage["directed_cases"] = ndirected
    ctx.coverage["late_key_directed"] = [c["name"] for c in late_key_cases()]
    ctx.coverage["world_model_actions_replayed"] = stats.get("world_actions", 0)
    ctx.coverage["partial"] = "completeness and per-(recipient,id) exactly-once are simulator-checked only"
    ctx.coverage["exhaustive"] = False
    return ctx.finish(
        rule="case = script over 2-4 accounts (<= 8 sends (10 thorough) of text / extended text / image / location / "
             "contact / link preview, 1:1 or to a group, restarts at quiescence) + explicit server schedule (random "
             "order, bursts held) + <= 1 fault (duplicate or corrupt one ciphertext); %d directed (incl. %d late-key "
             "histories: a member served through its retry receipt, the duplicate of the original group stanza "
             "delivered afterwards) + seeded random (every third followed by a random late-key script whose "
             "duplicate is held back, every third by a random burst script whose later stanzas are held back across "
             "the retry exchange of a corrupted earlier one; %d directed re-distribution histories); non-trivial = "
             "distinct action list with a group send, a fault or a restart"
             % (ndirected, len(late_key_cases()), len(redistribution_cases())),
        assumptions_text=ASSUME)


def replay(ctx, data):
    c = data["case"]
    case = c.get("case", c)
    if "actions" not in case:
        print("this replay file names a broken tie, not an input:", json.dumps(c)[:600])
        return 1
    exe = ctx.build_model("C03")
    model = modelrun.Model(exe) if exe else None
    full, found, runner = check_case(ctx, model, case, {"inputs": 0, "outs": {}, "ins": {}})
    if model:
        model.close()
    print("script:", json.dumps({"n": case["n"], "groups": case.get("groups"), "actions": full["actions"]}))
    rc = 0
    for k, n, d, key in found:
        if key and ctx.known_match(key):
            print("KNOWN-FINDING: property=C03 %s: %s" % (key, d[:400]))
            continue
        print("observed %s:%s  %s" % (k, n, d[:1500]))
        rc = 1
    if rc:
        print("VIOLATION property=C03 replay=(replayed)")
    else:
        print("no failure on this tree")
    return rc
