"""C09 — entities <-> stanzas without loss (partial: class coverage grows).

Model: coq/C09 (schema language, generic get/put, lens theorem).  Implementation: every
Cls.fromProtocolTreeNode(n).toProtocolTreeNode() of the registered classes, and the real
binary encoder/decoder for what the send-path classes produce.

The nodes are generated FROM THE SCHEMAS THE THEOREMS ARE ABOUT: the extracted model exports
its registry (run_registry) and the generator walks it."""
import ast, importlib, inspect, os, pkgutil, json
from ..checklib import Ctx
from .. import modelrun
from ..env import REPO, VERIF

ASSUME = [
    "modelled, not verified: Python dict = assoc list with distinct keys (attribute order is immaterial to the "
    "code: checked by re-running a sample with shuffled attribute order); str <-> Latin-1 codes; int()/str() "
    "on ASCII-digit strings = dec/to_dec; bytes.decode() validity = utf8_valid",
    "documented shape = class docstring / test fixture, children in the order toProtocolTreeNode appends them; "
    "attribute values are non-empty strings (C01's codec domain); generators emit only nodes of that shape",
    "the tie model<->code is differential testing per class on nodes generated from the schema (every "
    "single-point variation of the default node + random combinations); get/put are total functions of the "
    "schema, so a class is tied exactly as far as its schema is exercised",
    "the codec itself is C01's subject: here codec_wf (the model's predicate) is tied to the real "
    "encoder+decoder by pushing every real output whose model image is codec_wf through both",
    "C09 is PARTIAL: only the classes in coq/C09/C09Schemas.v `registry` are covered; the uncovered reachable "
    "classes are listed in coverage.uncovered_classes",
]

DIRS = {0: "receive", 1: "send", 2: "base/both"}

# ----------------------------------------------------------------------------- trees
# canonical node: (tag, {key: value}, data-or-None, [kids]);  value: str | int | None | ("other", repr)


def to_real(n):
    from yowsup.structs import ProtocolTreeNode
    tag, attrs, data, kids = n
    return ProtocolTreeNode(tag, dict(attrs), [to_real(k) for k in kids] or None, data)


def from_real(node):
    attrs = {}
    for k, v in node.attributes.items():
        if type(v) is str or v is None or (type(v) is int):
            attrs[k] = v
        else:
            attrs[k] = ("other", repr(v))
    data = node.data
    if data is not None and type(data) is not bytes:
        data = ("other", repr(data))
    tag = node.tag if type(node.tag) is str else ("other", repr(node.tag))
    return (tag, attrs, data, [from_real(c) for c in node.children])


def lat(s):
    return s.encode("latin-1")


def to_sx(n):
    tag, attrs, data, kids = n
    al = []
    for k, v in attrs.items():
        if type(v) is str:
            al.append([lat(k), [0, lat(v)]])
        elif type(v) is int and v >= 0:
            al.append([lat(k), [1, v]])
        else:
            al.append([lat(k), [2]])
    return [lat(tag), al, [] if data is None else [data], [to_sx(k) for k in kids]]


def from_sx(x):
    tag, al, d, kids = x
    attrs = {}
    for k, a in al:
        attrs[k.decode("latin-1")] = a[1].decode("latin-1") if a[0] == 0 else (a[1] if a[0] == 1 else None)
    return (tag.decode("latin-1"), attrs, d[0] if d else None, [from_sx(k) for k in kids])


def jnode(n):
    if not isinstance(n, tuple) or len(n) != 4:
        return repr(n)
    tag, attrs, data, kids = n
    return {"tag": tag if isinstance(tag, str) else repr(tag),
            "attrs": {k: (v if isinstance(v, (str, int)) or v is None else repr(v)) for k, v in attrs.items()},
            "data": data.hex() if isinstance(data, bytes) else (None if data is None else repr(data)),
            "kids": [jnode(k) for k in kids]}


def unjnode(j):
    return (j["tag"], dict(j["attrs"]), bytes.fromhex(j["data"]) if j["data"] is not None else None,
            [unjnode(k) for k in j["kids"]])


def is_dec(s):
    return type(s) is str and len(s) > 0 and all("0" <= c <= "9" for c in s)


def val_eqv(a, b):
    """numbers compared by value; everything else exactly, and only str counts"""
    if type(a) is not str or type(b) is not str:
        return False
    return a == b or (is_dec(a) and is_dec(b) and int(a) == int(b))


def node_diff(out, inp, path=""):
    """None when out ~ inp, else the first differing field as a string path"""
    if not isinstance(out, tuple) or len(out) != 4:
        return path + "!exception"
    if out[0] != inp[0]:
        return path + "#tag"
    for k in inp[1]:
        if k not in out[1]:
            return path + "@" + k
    for k in out[1]:
        if k not in inp[1]:
            return path + "@" + k
        if not val_eqv(out[1][k], inp[1][k]):
            return path + "@" + k
    if out[2] != inp[2]:
        return path + "#data"
    if len(out[3]) != len(inp[3]):
        return path + "#children"
    for a, b in zip(out[3], inp[3]):
        d = node_diff(a, b, path + b[0] + "/")
        if d:
            return d
    return None


# ----------------------------------------------------------------------------- registry decoding
def dec_schema(x):
    tags, ars, d, ks = x
    return {"tags": [t.decode("latin-1") for t in tags],
            "ars": [{"name": r[0].decode("latin-1"), "conv": r[1], "emit": r[2], "shape": r[3],
                     "dom": r[4]} for r in ars],
            "d": d,
            "ks": [{"m": k[0], "c": dec_schema(k[1])} for k in ks]}


def dec_registry(x):
    out = []
    for i, e in enumerate(x):
        out.append({"idx": i, "cls": e[0].decode(), "variant": e[1].decode(), "dir": e[2], "kind": e[3],
                    "lossless": bool(e[4]), "codec_safe": bool(e[5]), "tags_disjoint": bool(e[6]),
                    "schema": dec_schema(e[7])})
    return out


# ----------------------------------------------------------------------------- generator
ANY_VALUES = ["abc", "0", "007", "1", "caf\xe9 \xff", "x" * 300, "4915225256022@s.whatsapp.net",
              "a b&<>'\"", "false", "1415389947-15", "4915225256022-1415389947@g.us"]
DEC_VALUES = ["1415470561", "0", "007", "1", "123456789012345678901234567890"]
BYTES_VALUES = [b"hello", None, b"\x00", b"a\x00b\xff\xfe", bytes(range(256)) + b"tail" * 20,
                "caf\xe9".encode("utf-8")]
UTF8_VALUES = [b"4915225256022", "café".encode(), "€\U0001f600x".encode(), b"0", b"a b"]


class Chooser(object):
    """decides every choice point of the generator; path identifies the point"""

    def __init__(self, pin=None, rng=None):
        self.pin, self.rng, self.seen = pin, rng, {}

    def choose(self, path, n):
        self.seen[path] = n
        if self.rng is not None:
            return self.rng.randrange(n)
        if self.pin is not None and self.pin[0] == path:
            return self.pin[1] % n
        return 0


def dom_values(dom):
    if dom[0] == 0:
        return ANY_VALUES
    if dom[0] == 1:
        return DEC_VALUES
    return [v.decode("latin-1") for v in dom[1]]


def gen_node(sc, ch, path=(), min_items=0):
    tag = sc["tags"][ch.choose(path + ("#tag",), len(sc["tags"]))] if len(sc["tags"]) > 1 else sc["tags"][0]
    attrs = {}
    for r in sc["ars"]:
        p = path + ("@" + r["name"],)
        vals = dom_values(r["dom"])
        if r["shape"][0] == 0:
            present = True
        elif r["shape"][0] == 1:
            present = ch.choose(p + ("?",), 2) == 0
        else:                                   # exclusive with an earlier attribute: default absent
            present = ch.choose(p + ("?",), 2) == 1
            if present:
                attrs.pop(r["shape"][1].decode("latin-1"), None)
        if present:
            attrs[r["name"]] = vals[ch.choose(p, len(vals))]
    data = None
    if sc["d"] == 1:
        data = BYTES_VALUES[ch.choose(path + ("#data",), len(BYTES_VALUES))]
    elif sc["d"] == 2:
        data = UTF8_VALUES[ch.choose(path + ("#data",), len(UTF8_VALUES))]
    kids = []
    for i, k in enumerate(sc["ks"]):
        c, m = k["c"], k["m"]
        p = path + ("%d:%s" % (i, c["tags"][0]),)
        if m[0] == 0:
            kids.append(gen_node(c, ch, p))
        elif m[0] == 1:
            if ch.choose(p + ("?",), 2) == 0:
                kids.append(gen_node(c, ch, p, min_items=1 if m[1] else 0))
        else:
            counts = [2, 0, 1, 3] if min_items == 0 else [2, 1, 3]
            cnt = counts[ch.choose(p + ("#n",), len(counts))]
            items = [gen_node(c, ch, p) for _ in range(cnt)]
            items = make_unique(items, m[1], c)
            kids.extend(items)
    return (tag, attrs, data, kids)


def make_unique(items, ukey, c):
    if ukey[0] == 0:
        return items
    seen, out = set(), []
    for i, it in enumerate(items):
        tag, attrs, data, kids = it
        if ukey[0] == 1:
            k = ukey[1].decode("latin-1")
            v = attrs.get(k)
            if v in seen:
                rule = [r for r in c["ars"] if r["name"] == k][0]
                if rule["dom"][0] == 2:
                    continue                     # enumerated keys: drop the duplicate item
                v = v + str(i)
                attrs = dict(attrs)
                attrs[k] = v
            seen.add(v)
        else:
            v = data
            if v in seen:
                v = v + str(i).encode()
                data = v
            seen.add(v)
        out.append((tag, attrs, data, kids))
    return out


def gen_cases(entry, rng, nrand):
    sc = entry["schema"]
    ch = Chooser()
    base = gen_node(sc, ch)
    cases = [("default", base)]
    for path, n in sorted(ch.seen.items()):
        for alt in range(1, n):
            c2 = Chooser(pin=(path, alt))
            cases.append(("pin:%s=%d" % ("/".join(path), alt), gen_node(sc, c2)))
    for _ in range(nrand):
        cases.append(("random", gen_node(sc, Chooser(rng=rng))))
    return cases, len(ch.seen)


# ----------------------------------------------------------------------------- implementation side
_CLASSES = None


def entity_classes():
    """name -> class for every ProtocolEntity subclass defined under yowsup.layers.*.protocolentities"""
    global _CLASSES
    if _CLASSES is not None:
        return _CLASSES
    from yowsup.structs import ProtocolEntity
    import yowsup.layers as L
    found, dups, errors = {}, [], []
    for pkg in sorted(os.listdir(os.path.dirname(L.__file__))):
        pdir = os.path.join(os.path.dirname(L.__file__), pkg, "protocolentities")
        if not os.path.isdir(pdir):
            continue
        base = "yowsup.layers.%s.protocolentities" % pkg
        mods = [base] + [base + "." + m.name for m in pkgutil.iter_modules([pdir]) if not m.name.startswith("test_")]
        for mn in mods:
            try:
                mod = importlib.import_module(mn)
            except Exception as ex:            # a module that does not import is reported, not fatal
                errors.append("%s: %s" % (mn, type(ex).__name__))
                continue
            for name, obj in vars(mod).items():
                if inspect.isclass(obj) and issubclass(obj, ProtocolEntity) and obj is not ProtocolEntity \
                        and obj.__module__.startswith(base):
                    if name in found and found[name] is not obj:
                        dups.append(name)
                    found[name] = obj
    _CLASSES = (found, dups, errors)
    return _CLASSES


def reachable_classes():
    """classes exported by a protocolentities/__init__ or named in a layer module, plus their entity bases"""
    from yowsup.structs import ProtocolEntity
    import yowsup.layers as L
    found, _, _ = entity_classes()
    names = set()
    root = os.path.dirname(L.__file__)
    for pkg in sorted(os.listdir(root)):
        pdir = os.path.join(root, pkg)
        if not os.path.isdir(pdir):
            continue
        try:
            exp = importlib.import_module("yowsup.layers.%s.protocolentities" % pkg)
            names |= {n for n, o in vars(exp).items() if n in found and found[n] is o}
        except Exception:
            pass
        for fn in sorted(os.listdir(pdir)):
            if fn.startswith("layer") and fn.endswith(".py"):
                try:
                    tree = ast.parse(open(os.path.join(pdir, fn)).read())
                except SyntaxError:
                    continue
                for nd in ast.walk(tree):
                    if isinstance(nd, ast.Name) and nd.id in found:
                        names.add(nd.id)
                    elif isinstance(nd, ast.Attribute) and nd.attr in found:
                        names.add(nd.attr)
    for n in list(names):
        for b in found[n].__mro__[1:]:
            if b is not ProtocolEntity and b.__name__ in found:
                names.add(b.__name__)
    return names


def _kid(n, tag):
    return [k for k in n[3] if k[0] == tag][0]


def _with_id(ent, n):
    ent._id = n[1]["id"]
    return ent


# send-only classes whose fromProtocolTreeNode is the inherited base one (it would build the base
# entity) or cannot work: the entity is built through the public constructor from the node's fields
BUILDERS = {
    "PropsIqProtocolEntity": lambda C, n: _with_id(C(), n),
    "PushIqProtocolEntity": lambda C, n: _with_id(C(), n),
    "LastseenIqProtocolEntity": lambda C, n: C(n[1]["to"], _id=n[1]["id"]),
    "AddParticipantsIqProtocolEntity": lambda C, n: C(n[1]["to"], [k[1]["jid"] for k in _kid(n, "add")[3]], _id=n[1]["id"]),
    "PromoteParticipantsIqProtocolEntity": lambda C, n: C(n[1]["to"], [k[1]["jid"] for k in _kid(n, "promote")[3]], _id=n[1]["id"]),
    "DemoteParticipantsIqProtocolEntity": lambda C, n: C(n[1]["to"], [k[1]["jid"] for k in _kid(n, "demote")[3]], _id=n[1]["id"]),
    "RemoveParticipantsIqProtocolEntity": lambda C, n: C(n[1]["to"], [k[1]["jid"] for k in _kid(n, "remove")[3]], _id=n[1]["id"]),
    "ParticipantsGroupsIqProtocolEntity": lambda C, n: C(n[1]["to"], [k[1]["jid"] for k in n[3][0][3]], n[3][0][0], _id=n[1]["id"]),
    "GetPictureIqProtocolEntity": lambda C, n: C(n[1]["to"], _kid(n, "picture")[1]["type"] == "preview", _id=n[1]["id"]),
}


def impl_rt(cls, n):
    try:
        b = BUILDERS.get(cls.__name__)
        ent = b(cls, n) if b else cls.fromProtocolTreeNode(to_real(n))
        out = ent.toProtocolTreeNode()
        return from_real(out), out
    except Exception as ex:
        return ("exn", type(ex).__name__, str(ex)[:120]), None


_CODEC = None


def codec_rt(real_node):
    global _CODEC
    if _CODEC is None:
        from yowsup.layers.coder.encoder import WriteEncoder
        from yowsup.layers.coder.decoder import ReadDecoder
        from yowsup.layers.coder.tokendictionary import TokenDictionary
        _CODEC = (WriteEncoder(TokenDictionary()), ReadDecoder(TokenDictionary()))
    try:
        data = _CODEC[0].protocolTreeNodeToBytes(real_node)
        back = _CODEC[1].getProtocolTreeNode(bytearray(data))
        return from_real(back)
    except Exception as ex:
        return ("exn", type(ex).__name__, str(ex)[:120])


def shuffled(n, rng):
    tag, attrs, data, kids = n
    items = list(attrs.items())
    rng.shuffle(items)
    return (tag, dict(items), data, [shuffled(k, rng) for k in kids])


# ----------------------------------------------------------------------------- the check
def run(ctx):
    ctx.prove()
    exe = ctx.build_model("C09")
    model = modelrun.Model(exe) if exe else None
    found, dups, import_errors = entity_classes()
    reach = reachable_classes()
    if model is None:
        ctx.tie_broken_without_input("model-build:C09", ctx.ties.get("model-build:C09"))
        return ctx.finish(rule="model did not build", assumptions_text=ASSUME)
    reg = dec_registry(model.call("run_registry", []))
    nrand = 25 if ctx.tier == "quick" else 600
    stats = {"evaluations": 0, "codec_checked": 0, "codec_skipped_not_wf": 0, "order_checked": 0}
    distinct = set()
    per_class = {}
    corr_broken = 0
    bad_flags = []
    # ---- corpus first: witnesses of the repaired defects and of the open findings
    cdir = os.path.join(VERIF, "corpus", "C09")
    for fn in sorted(os.listdir(cdir)) if os.path.isdir(cdir) else []:
        if not fn.endswith(".json"):
            continue
        c = json.load(open(os.path.join(cdir, fn)))
        cls = found.get(c["class"])
        n = unjnode(c["node"])
        r, _ = impl_rt(cls, n) if cls else (("exn", "NoSuchClass", c["class"]), None)
        diff = node_diff(r, n)
        stats["evaluations"] += 1
        stats["corpus"] = stats.get("corpus", 0) + 1
        if diff is not None:
            ctx.violation("oracle:C09.corpus." + fn[:-5], {"class": c["class"], "how": "corpus/" + fn, "node": c["node"],
                          "impl": jnode(r), "lost_or_altered": diff}, key=c.get("key") or "%s:%s" % (c["class"], diff))
    for ent in reg:
        label = ent["cls"] + (" [%s]" % ent["variant"] if ent["variant"] else "")
        if ent["kind"] == 0 and not ent["lossless"]:
            bad_flags.append(label)              # cannot happen while C09_registry_lossless checks
        if ent["kind"] == 2:
            continue                             # pre-fix variants: Coq-side regression witnesses only
        cls = found.get(ent["cls"])
        if cls is None:
            ctx.tie_broken_without_input("registry:" + ent["cls"], "schema registered for a class that no "
                                         "longer exists under yowsup.layers.*.protocolentities")
            continue
        cases, npoints = gen_cases(ent, ctx.rng, nrand)
        mres = model.call_many("run_rt", [[ent["idx"], to_sx(n)] for _, n in cases])
        pc = per_class.setdefault(label, {"cases": 0, "choice_points": npoints, "dir": DIRS[ent["dir"]],
                                          "kind": ["lossless", "refuted"][ent["kind"]],
                                          "entity_built_by": "constructor" if ent["cls"] in BUILDERS
                                          else "fromProtocolTreeNode"})
        for (how, n), m in zip(cases, mres):
            stats["evaluations"] += 1
            pc["cases"] += 1
            key = (ent["cls"], repr(n))
            if how != "default" and key not in distinct:
                distinct.add(key)
            case = {"class": ent["cls"], "variant": ent["variant"], "how": how, "node": jnode(n)}
            if isinstance(m, tuple) or not m[0]:
                ctx.violation("correspondence:C09.generator", dict(case, model=repr(m)[:300],
                              note="generated node is outside the schema's documented shape"), found_input=False)
                corr_broken += 1
                continue
            r, real_out = impl_rt(cls, n)
            diff = node_diff(r, n)
            mnode = from_sx(m[2][0]) if m[2] else None
            # -- correspondence: the model's put (get n) is exactly what the code produces
            agree = (mnode is None and r[0] == "exn" and len(r) == 3) or (mnode is not None and r == mnode)
            fkey = "%s:%s" % (ent["cls"], diff) if diff else None
            if not agree:
                corr_broken += 1
                ctx.violation("correspondence:C09." + ent["cls"],
                              dict(case, model=jnode(mnode) if mnode else None, impl=jnode(r), lost_or_altered=diff),
                              found_input=diff is not None, key=fkey)
            # -- property oracle on the implementation: nothing lost or altered
            elif diff is not None:
                ctx.violation("oracle:C09.lossless." + ent["cls"],
                              dict(case, impl=jnode(r), lost_or_altered=diff), key=fkey)
            # -- survives the codec (send-path classes; model's codec_wf tied to the real codec)
            if real_out is not None and mnode is not None and agree:
                if m[2][1]:
                    back = codec_rt(real_out)
                    stats["codec_checked"] += 1
                    if back != r:
                        name = "oracle:C09.codec." if ent["dir"] in (1, 2) else "correspondence:C09.codec_wf."
                        ctx.violation(name + ent["cls"], dict(case, produced=jnode(r), after_codec=jnode(back)),
                                      key="%s:codec" % ent["cls"])
                else:
                    stats["codec_skipped_not_wf"] += 1
                    if ent["dir"] in (1, 2) and m[1] and ent["codec_safe"] and m[2][2]:
                        # input was codec-wf, schema codec_safe, values wf, yet output is not: contradicts put_wf
                        ctx.violation("correspondence:C09.put_wf." + ent["cls"], dict(case, produced=jnode(r)),
                                      found_input=False)
            # -- attribute order is immaterial to the code
            if how == "random" and stats["order_checked"] < 400 and real_out is not None:
                r2, _ = impl_rt(cls, shuffled(n, ctx.rng))
                stats["order_checked"] += 1
                if r2 != r:
                    ctx.violation("correspondence:C09.attr-order." + ent["cls"], dict(case, impl=jnode(r),
                                  impl_shuffled=jnode(r2)), found_input=False)
            if stats["evaluations"] % 1499 == 0:
                ctx.add_sample({"class": ent["cls"], "how": how, "node": jnode(n), "impl": jnode(r)})
    model.close()
    ctx.ties["correspondence"] = "ok" if corr_broken == 0 else "broken (%d cases)" % corr_broken
    if bad_flags:
        ctx.tie_broken_without_input("registry:not-lossless", bad_flags)
    if not ctx.proof_ok and not ctx.violations:
        ctx.tie_broken_without_input("theorem:" + ctx.failing_theorem(), ctx.ties.get("proof"))
    # ---- completeness: which reachable classes have no schema yet
    covered = sorted({e["cls"] for e in reg if e["kind"] == 0 and e["cls"] in found})
    refuted = sorted({e["cls"] + " [" + e["variant"] + "]" for e in reg if e["kind"] == 1})
    uncovered = sorted(reach - set(covered))
    cov_reach = sorted(set(covered) & reach)
    ctx.coverage.update({
        "evaluations": stats["evaluations"],
        "distinct_nontrivial": len(distinct),
        "partial": "partial: %d of %d reachable classes (%d schemas incl. %d classes outside the reachable set)" % (
            len(cov_reach), len(reach), len(covered), len(set(covered) - reach)),
        "classes_reachable": len(reach), "classes_defined": len(found),
        "classes_covered": len(cov_reach), "covered_classes": covered,
        "uncovered_classes": uncovered,
        "refuted_variants": refuted, "escape_hatch_classes": [],
        "constructor_built_classes": sorted(BUILDERS),
        "schemas_not_tag_disjoint": [e["cls"] for e in reg if not e["tags_disjoint"]],
        "schemas_not_codec_safe": [e["cls"] for e in reg if e["kind"] == 0 and not e["codec_safe"]],
        "entity_module_import_errors": import_errors, "duplicate_class_names": dups,
        "codec_roundtrips": stats["codec_checked"], "codec_skipped_model_not_wf": stats["codec_skipped_not_wf"],
        "attr_order_checks": stats["order_checked"], "corpus_cases": stats.get("corpus", 0), "per_class": per_class,
        "exhaustive": False,
    })
    return ctx.finish(
        rule="case = (class, node generated from the class's Coq schema): the default node, every single-point "
             "variation (each optional attribute/child absent, each enumerated/boundary value per attribute rule "
             "incl. '0','007','1',non-ASCII,300 chars,JIDs; each child tag alternative; list lengths 0/1/2/3; data "
             "absent/NUL/256+ bytes/multi-byte UTF-8) and N random combinations per class; non-trivial = distinct "
             "(class, node) other than the default node",
        assumptions_text=ASSUME)


def replay(ctx, data):
    case = data["case"]
    if "node" not in case:
        print("nothing to replay: this record names a broken tie without a failing input")
        print(json.dumps(case)[:2000])
        return 1
    found, _, _ = entity_classes()
    cls = found[case["class"]]
    n = unjnode(case["node"])
    r, out = impl_rt(cls, n)
    print("input   :", json.dumps(jnode(n)))
    print("observed:", json.dumps(jnode(r)))
    diff = node_diff(r, n)
    print("expected: the input stanza again (numbers compared by value); first difference:", diff)
    rc = 0
    if diff is not None:
        rc = 1
    if "after_codec" in case and out is not None:
        back = codec_rt(out)
        print("after real encoder+decoder:", json.dumps(jnode(back)))
        if back != r:
            rc = 1
    if "model" in case and case["model"] is not None and jnode(r) != case["model"]:
        print("model   :", json.dumps(case["model"]))
        rc = 1
    if rc:
        print("VIOLATION property=C09 replay=(replayed)")
    return rc
