"""C15 — media encryption.  Model: coq/C15; implementation: yowsup MediaCipher.

Tie: the extracted model (primitives answered by the real HKDFv3 / AES-CBC / HMAC-SHA256 the
code itself uses) and the real MediaCipher are run on the same (plaintext, key, kind) and
compared byte for byte; a second implementation written here directly on `cryptography`
primitives (own HKDF, own padding) must produce the same file and decrypt the library's.
"""
import os, json, glob, hmac as _hmac, hashlib
from ..checklib import Ctx
from .. import modelrun
from ..env import VERIF

FINDING_KEY = "C15:encrypt-skips-padding-when-aligned"

# WhatsApp's application-info strings per media kind (the specification side; deliberately NOT
# read from MediaCipher.INFO_*)
KINDS = {
    "image": b"WhatsApp Image Keys",
    "video": b"WhatsApp Video Keys",
    "audio": b"WhatsApp Audio Keys",
    "document": b"WhatsApp Document Keys",
}
KIND_ORDER = ["image", "video", "audio", "document"]

ASSUME = [
    "modelled, not verified: HKDF-SHA256 (axolotl HKDFv3), AES-256-CBC (cryptography), HMAC-SHA256 (hmac/hashlib) "
    "are Section variables constrained by prims_ok (output lengths; cbc_dec inverts cbc_enc on block-multiple "
    "input for 32-byte key / 16-byte iv); the harness runs the extracted model with the real primitives as oracles",
    "idealisation (Section hypothesis of C15_tamper_rejected / C15_wrong_key, never an axiom): the 10-byte "
    "truncated HMAC has no collision among the queried (mac key, message) pairs; that an adversary without the "
    "key cannot produce the tag of a new body (unforgeability) is cryptography and outside the model - "
    "C15_tamper_forgery_reduction states exactly that reduction; different (media key, kind) giving a different "
    "derived MAC key is the HKDF idealisation and is a premise of C15_wrong_key",
    "PKCS#7 pad/unpad are modelled concretely and compared with cryptography's PKCS7(128) padder/unpadder",
    "the model is the REPAIRED encrypt (fixes/C15-always-pad.patch); the shipped pad-only-when-unaligned policy is "
    "kept as encrypt_unaligned_only with theorem C15_unaligned_only_refuted and corpus/C15 witnesses",
    "Python slicing c[:-10], c[-10:], derived[48:80], ByteUtil.split = firstn/skipn; bytes equality = bytes_eqb",
    "the model is a pure function; that a MediaCipher OBJECT is one too (no result depends on earlier calls on it "
    "or on another instance) is established by driving one and two objects through exhaustively enumerated call "
    "pairs and random call sequences (C15_history_independent / C15_memo_by_key_refuted state it in Coq)",
    "the tie model<->code is differential testing: exhaustive over lengths 0..64 x 4 kinds, every single-byte "
    "corruption and every truncation of those ciphertexts, random larger; independent implementation both ways",
]


# ----------------------------------------------------------------------------------------
# real primitives for the model's oracles: the same library calls mediacipher.py makes
def make_oracle(stats):
    from axolotl.kdf.hkdfv3 import HKDFv3
    from cryptography.hazmat.primitives.ciphers import Cipher, algorithms, modes
    from cryptography.hazmat.backends import default_backend

    def oracle(q):
        stats["oracle_calls"] = stats.get("oracle_calls", 0) + 1
        try:
            pid = q[0]
            if pid == 1:
                return bytes(HKDFv3().deriveSecrets(q[1], q[2], q[3]))
            if pid == 2:
                e = Cipher(algorithms.AES(q[1]), modes.CBC(q[2]), backend=default_backend()).encryptor()
                return e.update(q[3]) + e.finalize()
            if pid == 3:
                d = Cipher(algorithms.AES(q[1]), modes.CBC(q[2]), backend=default_backend()).decryptor()
                return d.update(q[3]) + d.finalize()
            if pid == 4:
                return _hmac.new(q[1], q[2], hashlib.sha256).digest()
        except Exception as e:  # keep the pipe in sync; an empty answer makes the model diverge visibly
            stats["oracle_errors"] = stats.get("oracle_errors", 0) + 1
            stats["oracle_last_error"] = repr(e)[:200]
        return b""
    return oracle


# ----------------------------------------------------------------------------------------
# independent implementation of the WhatsApp media format, directly on `cryptography`
# (own HKDF via cryptography's HKDF, own PKCS#7, cryptography's HMAC) -- shares no code with
# axolotl's HKDFv3, Python's hmac module or cryptography's padding module
def ref_expand(key, info):
    from cryptography.hazmat.primitives.kdf.hkdf import HKDF
    from cryptography.hazmat.primitives import hashes
    d = HKDF(algorithm=hashes.SHA256(), length=112, salt=None, info=info).derive(bytes(key))
    return d[0:16], d[16:48], d[48:80]


def ref_mac(mk, data):
    from cryptography.hazmat.primitives import hashes, hmac as chmac
    h = chmac.HMAC(mk, hashes.SHA256())
    h.update(data)
    return h.finalize()[:10]


def ref_encrypt(p, key, info):
    from cryptography.hazmat.primitives.ciphers import Cipher, algorithms, modes
    iv, ck, mk = ref_expand(key, info)
    n = 16 - len(p) % 16
    e = Cipher(algorithms.AES(ck), modes.CBC(iv)).encryptor()
    enc = e.update(bytes(p) + bytes([n]) * n) + e.finalize()
    return enc + ref_mac(mk, iv + enc)


def ref_decrypt(c, key, info):
    """returns plaintext or None (rejected)"""
    from cryptography.hazmat.primitives.ciphers import Cipher, algorithms, modes
    iv, ck, mk = ref_expand(key, info)
    if len(c) < 10 + 16 or (len(c) - 10) % 16 != 0:
        return None
    enc, tag = c[:-10], c[-10:]
    if not _hmac.compare_digest(tag, ref_mac(mk, iv + enc)):
        return None
    d = Cipher(algorithms.AES(ck), modes.CBC(iv)).decryptor()
    pt = d.update(enc) + d.finalize()
    n = pt[-1]
    if n < 1 or n > 16 or pt[-n:] != bytes([n]) * n:
        return None
    return pt[:-n]


# ----------------------------------------------------------------------------------------
# implementation access (public API only)
def impl_encrypt(kind, p, key):
    from yowsup.layers.protocol_media.mediacipher import MediaCipher
    m = MediaCipher()
    if kind in KINDS:
        return getattr(m, "encrypt_" + kind)(p, key)
    return m.encrypt(p, key, bytes.fromhex(kind))   # kind = hex of a free info string


def impl_decrypt(kind, c, key):
    """('ok', bytes) | ('err', exception class name, message)"""
    from yowsup.layers.protocol_media.mediacipher import MediaCipher
    m = MediaCipher()
    try:
        if kind in KINDS:
            r = getattr(m, "decrypt_" + kind)(c, key)
        else:
            r = m.decrypt(c, key, bytes.fromhex(kind))
        return ("ok", bytes(r))
    except Exception as e:
        return ("err", type(e).__name__, str(e)[:60])


def info_of(kind):
    return KINDS[kind] if kind in KINDS else bytes.fromhex(kind)


def canon_model_dec(r):
    if isinstance(r, tuple):
        return ("exn",) + tuple(r)
    if r and r[0] == 0:
        return ("ok", r[1])
    return ("err", {1: "mac", 2: "len", 3: "pad"}.get(r[0] if r else -1, "?"))


# ----------------------------------------------------------------------------------------
def interesting_plaintexts(rng, n):
    """plaintexts of length n: random, and endings that look like PKCS#7 padding"""
    out = [rng.randbytes(n)]
    if n >= 1:
        out.append(rng.randbytes(n - 1) + b"\x01")
    if n >= 2 and n % 16 == 0:
        out.append(rng.randbytes(n - 2) + b"\x02\x02")
    if n >= 16 and n % 16 == 0:
        out.append(rng.randbytes(n - 16) + b"\x10" * 16)
    return out


def gen_cases(ctx):
    """(origin, kind, plaintext, key)"""
    rng = ctx.rng
    cases = []
    for path in sorted(glob.glob(os.path.join(VERIF, "corpus", "C15", "*.json"))):
        c = json.load(open(path))
        cases.append(("corpus:" + os.path.basename(path), c["kind"], bytes.fromhex(c["plaintext"]),
                      bytes.fromhex(c["key"])))
    nkeys = 1 if ctx.tier == "quick" else 6
    for n in range(0, 65):
        for kind in KIND_ORDER:
            for _ in range(nkeys):
                key = rng.randbytes(32)
                pts = interesting_plaintexts(rng, n)
                if ctx.tier == "quick":
                    pts = pts[:1] + (pts[1:2] if kind == "image" else []) + \
                        (pts[2:] if kind == "video" else [])
                for p in pts:
                    cases.append(("exh", kind, p, key))
    nrand = 80 if ctx.tier == "quick" else 2500
    for i in range(nrand):
        cls = rng.random()
        if cls < .4:
            n = 16 * rng.randint(4, 80) + rng.choice([-1, 0, 0, 1])
        elif cls < .8:
            n = rng.randint(65, 3000)
        elif cls < .97:
            n = rng.randint(3000, 20000)
        else:
            n = rng.choice([65535, 65536, 65537]) if ctx.tier == "thorough" else 16 * 2048
        kind = rng.choice(KIND_ORDER)
        klen = 32 if rng.random() < .85 else rng.choice([0, 1, 16, 31, 33, 64])
        p = rng.randbytes(n)
        if rng.random() < .3 and n:
            p = p[:-1] + bytes([rng.choice([1, 2, 16, 0, 17])])
        cases.append(("rand", kind, p, rng.randbytes(klen)))
    # power-of-two boundaries and multiples of typical chunk sizes (a streaming / chunked rewrite of the cipher
    # misbehaves exactly there): 2^k-1, 2^k, 2^k+1 and m * 64 KiB, the aligned ones also ending in a byte that
    # looks like PKCS7 padding
    ks = range(7, 18) if ctx.tier == "quick" else range(7, 21)
    big = sorted(set([(1 << k) + d for k in ks for d in (-1, 0, 1)] +
                     [m * 65536 for m in ((1, 2, 3) if ctx.tier == "quick" else (1, 2, 3, 4, 5, 8))] +
                     [m * 4096 for m in (1, 3)] + [m * 8192 for m in (1, 3)]))
    for i, n in enumerate(big):
        kind = KIND_ORDER[i % len(KIND_ORDER)]
        p = rng.randbytes(n)
        cases.append(("boundary", kind, p, rng.randbytes(32)))
        if n % 16 == 0:
            cases.append(("boundary", kind, p[:-1] + b"\x01", rng.randbytes(32)))
    # content that is itself a media blob: a file encrypted for the SAME key and kind (an .enc file uploaded again,
    # a forwarded blob), for another kind, for another key.  Content is opaque: it is encrypted like any other.
    for kind in KIND_ORDER:
        for n in (0, 5, 16, 100):
            key = rng.randbytes(32)
            inner = ref_encrypt(rng.randbytes(n), key, info_of(kind))
            cases.append(("sealed-same", kind, inner, key))
            other = KIND_ORDER[(KIND_ORDER.index(kind) + 1) % len(KIND_ORDER)]
            cases.append(("sealed-other-kind", kind, ref_encrypt(rng.randbytes(n), key, info_of(other)), key))
            cases.append(("sealed-other-key", kind, ref_encrypt(rng.randbytes(n), rng.randbytes(32), info_of(kind)), key))
    # free info strings through the generic encrypt/decrypt
    for i in range(10 if ctx.tier == "quick" else 200):
        info = rng.randbytes(rng.choice([0, 1, 5, 19, 40]))
        cases.append(("info", info.hex(), rng.randbytes(rng.choice([0, 1, 15, 16, 17, 32, 100])), rng.randbytes(32)))
    return cases


def tamper_variants(ctx, c, full):
    """(what, c') : every single-byte corruption position, every truncation, extensions"""
    rng = ctx.rng
    out = []
    for i in range(len(c)):
        deltas = [rng.randint(1, 255)]
        if full:
            deltas += [1, 0x80, 0xFF]
        for d in sorted(set(deltas)):
            out.append(("flip@%d^%02x" % (i, d), c[:i] + bytes([c[i] ^ d]) + c[i + 1:]))
    for n in range(len(c)):
        out.append(("trunc:%d" % n, c[:n]))
    for n in range(1, len(c)):
        if full or n in (1, 10, 16, 26):
            out.append(("cuthead:%d" % n, c[n:]))
    out.append(("append1", c + bytes([rng.randint(0, 255)])))
    out.append(("append16", c + rng.randbytes(16)))
    out.append(("append-block-before-tag", c[:-10] + rng.randbytes(16) + c[-10:]))
    return out


# ----------------------------------------------------------------------------------------
# history independence: the model is a pure function of (plaintext/ciphertext, key, kind), so the
# tie must also establish that a MediaCipher OBJECT is one -- whatever was called on it (or on
# another instance: the state could be class-level) before.
# call = {"inst": 0|1, "via": "wrapper"|"generic", "op": "enc"|"dec", "kind": k, "key": bytes, "data": bytes}
def call_on(inst, call):
    """run one call on a live MediaCipher instance -> ('ok', bytes) | ('err',)"""
    try:
        if call["via"] == "wrapper":
            r = getattr(inst, ("encrypt_" if call["op"] == "enc" else "decrypt_") + call["kind"])(call["data"], call["key"])
        else:
            f = inst.encrypt if call["op"] == "enc" else inst.decrypt
            r = f(call["data"], call["key"], KINDS[call["kind"]])
        return ("ok", bytes(r))
    except Exception:
        return ("err",)


def expected_alone(call):
    """what the call must return judged from its own arguments alone (independent implementation)"""
    info = KINDS[call["kind"]]
    if call["op"] == "enc":
        return ("ok", ref_encrypt(call["data"], call["key"], info))
    r = ref_decrypt(call["data"], call["key"], info)
    return ("ok", r) if r is not None else ("err",)


def model_alone(model, cache, call):
    """the extracted (pure) model on this call's arguments alone, canonicalised like call_on"""
    k = (call["op"], call["kind"], call["key"], call["data"])
    if k not in cache:
        info = KINDS[call["kind"]]
        if call["op"] == "enc":
            r = model.call("orun_encrypt", [1, call["data"], call["key"], info])
            cache[k] = ("ok", r) if isinstance(r, bytes) else ("exn", repr(r))
        else:
            m = canon_model_dec(model.call("orun_decrypt", [call["data"], call["key"], info]))
            cache[k] = ("ok", m[1]) if m[0] == "ok" else ("err",) if m[0] == "err" else m
    return cache[k]


def run_sequence(seq):
    """fresh instances, the calls in order -> list of results"""
    from yowsup.layers.protocol_media.mediacipher import MediaCipher
    insts = {}
    out = []
    for call in seq:
        if call["inst"] not in insts:
            insts[call["inst"]] = MediaCipher()
        out.append(call_on(insts[call["inst"]], call))
    return out


def seq_json(seq, results=None, expected=None):
    out = []
    for i, c in enumerate(seq):
        d = {"inst": c["inst"], "via": c["via"], "op": c["op"], "kind": c["kind"], "key": c["key"].hex(),
             "data": c["data"].hex()}
        if results is not None:
            d["observed"] = [results[i][0]] + [x.hex() for x in results[i][1:]]
        if expected is not None:
            d["expected"] = [expected[i][0]] + [x.hex() for x in expected[i][1:]]
        out.append(d)
    return out


def seq_unjson(js):
    return [{"inst": d["inst"], "via": d["via"], "op": d["op"], "kind": d["kind"], "key": bytes.fromhex(d["key"]),
             "data": bytes.fromhex(d["data"])} for d in js]


def first_bad(seq, want):
    """index of the first call whose result differs from want(call), else None"""
    res = run_sequence(seq)
    for i, c in enumerate(seq):
        if res[i] != want(c):
            return i
    return None


def shrink_sequence(seq, want):
    """keep the first failing call, greedily drop earlier calls while it still fails"""
    i = first_bad(seq, want)
    if i is None:
        return seq
    seq = seq[:i + 1]
    j = 0
    while j < len(seq) - 1:
        cand = seq[:j] + seq[j + 1:]
        res = run_sequence(cand)
        if res[-1] != want(cand[-1]) and all(res[x] == want(cand[x]) for x in range(len(cand) - 1)):
            seq = cand
        else:
            j += 1
    return seq


def pair_alphabet(rng, key, p):
    """every call shape for one key: 4 kinds x {wrapper, generic} x {enc, dec of a genuine file of each kind}"""
    calls = []
    genuine = {k: ref_encrypt(p, key, KINDS[k]) for k in KIND_ORDER}
    for via in ("wrapper", "generic"):
        for kind in KIND_ORDER:
            calls.append({"via": via, "op": "enc", "kind": kind, "key": key, "data": p})
            for ck in KIND_ORDER:
                calls.append({"via": via, "op": "dec", "kind": kind, "key": key, "data": genuine[ck]})
    return calls


def random_sequence(rng, keys, n):
    seq, produced = [], []
    for _ in range(n):
        key = rng.choice(keys)
        kind = rng.choice(KIND_ORDER)
        c = {"inst": rng.choice([0, 0, 0, 1]), "via": rng.choice(["wrapper", "generic"]), "kind": kind, "key": key}
        if seq and rng.random() < .5:         # aim at the memo: same key as the previous call, another kind
            c["key"] = seq[-1]["key"]
            c["kind"] = rng.choice([k for k in KIND_ORDER if k != seq[-1]["kind"]])
        if rng.random() < .45:
            c["op"] = "enc"
            c["data"] = rng.randbytes(rng.choice([0, 1, 15, 16, 17, 37]))
            produced.append(ref_encrypt(c["data"], c["key"], KINDS[c["kind"]]))
        else:
            c["op"] = "dec"
            r = rng.random()
            if r < .45:      # a genuine file for this very (key, kind)
                c["data"] = ref_encrypt(rng.randbytes(rng.choice([0, 5, 16, 33])), c["key"], KINDS[c["kind"]])
            elif r < .8:     # a genuine file of another kind and/or key
                c["data"] = ref_encrypt(rng.randbytes(rng.choice([0, 5, 16, 33])), rng.choice(keys), KINDS[rng.choice(KIND_ORDER)])
            elif produced:   # something encrypted earlier in this history
                c["data"] = rng.choice(produced)
            else:
                c["data"] = rng.randbytes(rng.choice([0, 9, 26, 42]))
        seq.append(c)
    return seq


def history_phase(ctx, model, viol, stats):
    """drives MediaCipher objects through call sequences; every call must return what the pure model /
    the independent implementation give for that call's arguments alone"""
    rng = ctx.rng
    cache, exp_cache = {}, {}
    n_seq = n_calls = 0
    mism = 0

    def want(c):
        k = (c["op"], c["kind"], c["key"], c["data"])
        if k not in exp_cache:
            exp_cache[k] = expected_alone(c)
        return exp_cache[k]

    def check(seq, origin):
        nonlocal n_seq, n_calls, mism
        n_seq += 1
        n_calls += len(seq)
        res = run_sequence(seq)
        for i, c in enumerate(seq):
            exp = want(c)
            bad_oracle = res[i] != exp
            bad_model = False
            if model is not None:
                m = model_alone(model, cache, c)
                bad_model = m != res[i]
            if not (bad_oracle or bad_model):
                continue
            if bad_model:
                mism += 1
            small = shrink_sequence(seq[:i + 1], want) if bad_oracle else seq[:i + 1]
            sres = run_sequence(small)
            alone = run_sequence([dict(small[-1], inst=0)])[0]
            name = "oracle:history-dependence" if bad_oracle and alone == want(small[-1]) else \
                   "oracle:sequence" if bad_oracle else "correspondence:C15.sequence"
            viol(name, {"op": "sequence", "origin": origin, "calls": seq_json(small, sres, [want(c2) for c2 in small]),
                        "last_call_alone_on_a_fresh_object": [alone[0]] + [x.hex() for x in alone[1:]],
                        "problem": "the last call does not return what its own arguments determine "
                                   "(independent implementation / pure model); 'enc' must give the WhatsApp file for "
                                   "that kind, 'dec' must return the plaintext of a genuine file of that kind+key and "
                                   "reject everything else"},
                 found_input=bad_oracle)
            return False
        return True

    # --- exhaustive: every ordered pair (call1 on key A) -> (call2 on key A or key B); same object, and
    #     two objects (class-level state)
    keyA, keyB = rng.randbytes(32), rng.randbytes(32)
    pA, pB = rng.randbytes(37), rng.randbytes(16)
    alphaA, alphaB = pair_alphabet(rng, keyA, pA), pair_alphabet(rng, keyB, pB)
    pairs = 0
    for c1 in alphaA:
        for c2 in alphaA + alphaB:
            for i2 in (0, 1):
                pairs += 1
                if not check([dict(c1, inst=0), dict(c2, inst=i2)], "pair"):
                    break
            else:
                continue
            break
        else:
            continue
        break
    # --- a third call after an interleaved one on the other object (X, Y, X) for the memo-shaped triples
    for c1 in alphaA[::5]:
        for c2 in alphaB[::7]:
            for c3 in alphaA[::3]:
                if c3["kind"] != c1["kind"]:
                    check([dict(c1, inst=0), dict(c2, inst=1), dict(c3, inst=0)], "triple")
    # --- seeded random histories over a pool of three keys and two objects
    nrand, ln = (60, 12) if ctx.tier == "quick" else (1500, 25)
    for _ in range(nrand):
        keys = [rng.randbytes(32) for _ in range(3)]
        if not check(random_sequence(rng, keys, rng.randint(2, ln)), "random"):
            break
    ctx.coverage["history_sequences"] = n_seq
    ctx.coverage["history_calls"] = n_calls
    ctx.coverage["history_exhaustive_pairs"] = pairs
    return n_calls, mism


def coqchk(ctx):
    """thorough only: independent re-check of the compiled closure with coqchk -o"""
    import subprocess
    from ..checklib import COQ
    if ctx.tier != "thorough" or not ctx.proof_ok:
        return
    try:
        p = subprocess.run(["coqchk", "-silent", "-o", "-Q", COQ, "YV", "YV.Properties.%s" % ctx.pid],
                           stdout=subprocess.PIPE, stderr=subprocess.STDOUT, text=True, timeout=1500)
    except Exception as e:
        ctx.coverage["coqchk"] = "not run: %r" % (e,)
        return
    summary = " ".join(l.strip() for l in p.stdout.splitlines() if l.strip().startswith("*"))
    ctx.coverage["coqchk"] = ("ok: " if p.returncode == 0 else "FAILED: ") + summary[:600]
    if p.returncode != 0 or "Axioms: <none>" not in summary:
        ctx.proof_ok = False
        ctx.ties["proof"] = "broken: coqchk: " + (summary or p.stdout[-300:])


def run(ctx):
    ctx.prove()
    coqchk(ctx)
    exe = ctx.build_model("C15")
    stats = {}
    model = modelrun.Model(exe, oracle=make_oracle(stats)) if exe else None
    rng = ctx.rng
    cases = gen_cases(ctx)
    evals = 0
    distinct = set()
    kinds = {}
    mism = {"enc": 0, "dec": 0, "tamper": 0, "crafted": 0, "pad": 0, "sequence": 0}
    lens_seen = set()
    errkinds = {}
    limit = {}

    def viol(name, case, found_input=True, key=None):
        limit[name] = limit.get(name, 0) + 1
        if limit[name] <= 2:
            ctx.violation(name, case, found_input=found_input, key=key)

    cts = []   # (kind, p, key, c) of in-domain cases with a ciphertext from the implementation
    for (origin, kind, p, key) in cases:
        info = info_of(kind)
        base = {"op": "roundtrip", "origin": origin, "kind": kind, "plaintext": p.hex() if len(p) <= 256 else None,
                "plaintext_len": len(p), "key": key.hex(), "seed_note": "plaintext omitted when > 256 bytes; "
                "regenerate with the same VERIF_SEED" if len(p) > 256 else ""}
        if len(p) > 256:
            base["plaintext_sha256"] = hashlib.sha256(p).hexdigest()
            base["plaintext_file"] = None
        kinds[origin.split(":")[0]] = kinds.get(origin.split(":")[0], 0) + 1
        dk = (kind, p, key)
        if dk not in distinct:
            distinct.add(dk)
        lens_seen.add(len(p))
        evals += 1
        # --- implementation
        try:
            c = impl_encrypt(kind, p, key)
        except Exception as e:
            viol("oracle:encrypt-raises", dict(base, observed=repr(e)[:200]))
            continue
        rt = impl_decrypt(kind, c, key)
        oracle_fail = None
        if rt != ("ok", p):
            oracle_fail = "roundtrip"
            viol("oracle:roundtrip", dict(base, ciphertext=c.hex()[:600], expected="decrypt(encrypt(p)) == p",
                                           observed=repr(rt)[:200]),
                 key=FINDING_KEY if len(p) % 16 == 0 else None)
        # --- independent implementation, both directions, and identical bytes (all deterministic)
        rc = ref_encrypt(p, key, info)
        if ref_decrypt(c, key, info) != p:
            oracle_fail = oracle_fail or "interop-lib-to-ref"
            viol("oracle:interop-lib-to-ref", dict(base, ciphertext=c.hex()[:600],
                 expected="independent implementation decrypts the library's file to p",
                 observed=repr(ref_decrypt(c, key, info))[:120]),
                 key=FINDING_KEY if len(p) % 16 == 0 and len(c) == len(p) + 10 else None)
        back = impl_decrypt(kind, rc, key)
        if back != ("ok", p):
            oracle_fail = oracle_fail or "interop-ref-to-lib"
            viol("oracle:interop-ref-to-lib", dict(base, ref_ciphertext=rc.hex()[:600],
                 expected="library decrypts the independent implementation's file to p", observed=repr(back)[:200]))
        if rc != c:
            oracle_fail = oracle_fail or "layout"
            viol("oracle:layout", dict(base, ciphertext=c.hex()[:600], ref_ciphertext=rc.hex()[:600],
                 expected="library output == independent implementation's output (the format is deterministic)",
                 observed="differs (len %d vs %d)" % (len(c), len(rc))),
                 key=FINDING_KEY if len(p) % 16 == 0 and len(c) == len(p) + 10 else None)
        if len(c) != (len(p) // 16 + 1) * 16 + 10 and oracle_fail is None:
            oracle_fail = "length"
            viol("oracle:length", dict(base, observed=len(c), expected=(len(p) // 16 + 1) * 16 + 10))
        # --- model
        if model:
            mc = model.call("orun_encrypt", [1, p, key, info])
            if mc != c:
                mism["enc"] += 1
                # is it exactly the shipped (unrepaired) policy?  then it is the listed finding
                legacy = model.call("orun_encrypt", [0, p, key, info]) if len(p) % 16 == 0 else None
                viol("correspondence:C15.encrypt", dict(base, impl=c.hex()[:600],
                     model=mc.hex()[:600] if isinstance(mc, bytes) else repr(mc),
                     matches_unaligned_only_policy=(legacy == c)),
                     found_input=oracle_fail is not None,
                     key=FINDING_KEY if legacy == c else None)
            md = canon_model_dec(model.call("orun_decrypt", [c, key, info]))
            if (md[0], md[1] if md[0] == "ok" else None) != (rt[0], rt[1] if rt[0] == "ok" else None):
                mism["dec"] += 1
                viol("correspondence:C15.decrypt", dict(base, ciphertext=c.hex()[:600], impl=repr(rt)[:200],
                     model=repr(md)[:200]), found_input=oracle_fail is not None,
                     key=FINDING_KEY if len(p) % 16 == 0 and len(c) == len(p) + 10 else None)
        if origin == "exh" or origin.startswith("corpus"):
            cts.append((kind, p, key, c))
        if evals % 211 == 0:
            ctx.add_sample({"kind": kind, "plaintext_len": len(p), "key_len": len(key), "cipher_len": len(c),
                            "tag": c[-10:].hex(), "roundtrip": rt[0]})

    # ---------------- tampering: every corruption position and truncation must be rejected
    tam_total = 0
    seen_ct = set()
    for idx, (kind, p, key, c) in enumerate(cts):
        if (kind, len(p)) in seen_ct and ctx.tier == "quick":
            continue
        seen_ct.add((kind, len(p)))
        if ctx.tier == "quick" and KIND_ORDER[len(p) % 4] != kind:
            continue   # quick: each length once, kinds rotating; thorough: every (length, kind)
        info = info_of(kind)
        variants = tamper_variants(ctx, c, full=(ctx.tier == "thorough" and len(p) in (0, 1, 15, 16, 17, 32, 64)))
        # wrong key / wrong kind
        others = [k for k in KIND_ORDER if k != kind]
        wk = bytearray(key)
        if wk:
            wk[rng.randrange(len(wk))] ^= 1 << rng.randrange(8)
        model_q = []
        for what, c2 in variants:
            tam_total += 1
            r = impl_decrypt(kind, c2, key)
            if r[0] == "ok":
                viol("oracle:tamper-accepted", {"op": "tamper", "kind": kind, "key": key.hex(), "plaintext": p.hex(),
                     "ciphertext": c.hex(), "tampered": c2.hex(), "what": what,
                     "expected": "rejected with an error", "observed": "returned %s" % r[1].hex()[:80]})
            else:
                errkinds[r[1] + ":" + r[2]] = errkinds.get(r[1] + ":" + r[2], 0) + 1
            model_q.append((what, c2, r))
        for k2 in others:
            tam_total += 1
            r = impl_decrypt(k2, c, key)
            if r[0] == "ok":
                viol("oracle:wrong-kind-accepted", {"op": "wrongkind", "kind": kind, "as_kind": k2, "key": key.hex(),
                     "plaintext": p.hex(), "ciphertext": c.hex(), "expected": "rejected", "observed": r[1].hex()[:80]})
        if wk:
            tam_total += 1
            r = impl_decrypt(kind, c, bytes(wk))
            if r[0] == "ok":
                viol("oracle:wrong-key-accepted", {"op": "wrongkey", "kind": kind, "key": key.hex(),
                     "wrong_key": bytes(wk).hex(), "plaintext": p.hex(), "ciphertext": c.hex(),
                     "expected": "rejected", "observed": r[1].hex()[:80]})
        # model on the same tampered inputs (sampled in quick)
        if model:
            step = 1 if ctx.tier == "thorough" or len(p) in (0, 16) else 5
            for what, c2, r in model_q[::step]:
                md = canon_model_dec(model.call("orun_decrypt", [c2, key, info]))
                if md[0] != r[0] or (md[0] == "ok" and md[1] != r[1]):
                    mism["tamper"] += 1
                    viol("correspondence:C15.decrypt-tampered", {"op": "tamper", "kind": kind, "key": key.hex(),
                         "plaintext": p.hex(), "ciphertext": c.hex(), "tampered": c2.hex(), "what": what,
                         "impl": repr(r)[:200], "model": repr(md)[:200]}, found_input=(r[0] == "ok"))
    evals += tam_total

    # ---------------- correctly MACed but otherwise arbitrary bodies: the path after the MAC gate
    # (block-length check, CBC decryption, PKCS#7 validation) -- model and code must agree exactly
    ncraft = 150 if ctx.tier == "quick" else 4000
    crafted_kinds = {}
    for i in range(ncraft):
        kind = rng.choice(KIND_ORDER)
        info = KINDS[kind]
        key = rng.randbytes(32)
        iv, ck, mk = ref_expand(key, info)
        cls = rng.random()
        if cls < .15:
            body = rng.randbytes(rng.choice([0, 1, 15, 17, 31, 33]))            # not whole blocks / empty
        else:
            from cryptography.hazmat.primitives.ciphers import Cipher, algorithms, modes
            nb = rng.choice([1, 1, 2, 3])
            pt = bytearray(rng.randbytes(16 * nb))
            v = rng.choice([0, 1, 2, 3, 15, 16, 17, 32, 255, rng.randint(0, 255)])
            fill = rng.choice(["good", "good", "bad-first", "bad-mid", "last-only"])
            pt[-1] = v
            if 1 <= v <= 16:
                if fill == "good":
                    pt[-v:] = bytes([v]) * v
                elif fill == "bad-first" and v >= 2:
                    pt[-v:] = bytes([v]) * v
                    pt[-v] ^= 0x40
                elif fill == "bad-mid" and v >= 3:
                    pt[-v:] = bytes([v]) * v
                    pt[-(v // 2 + 1)] ^= 1
            e = Cipher(algorithms.AES(ck), modes.CBC(iv)).encryptor()
            body = e.update(bytes(pt)) + e.finalize()
        c2 = body + ref_mac(mk, iv + body)
        r = impl_decrypt(kind, c2, key)
        evals += 1
        if model:
            md = canon_model_dec(model.call("orun_decrypt", [c2, key, info]))
            crafted_kinds[md[0] + (":" + md[1] if md[0] == "err" else "")] = \
                crafted_kinds.get(md[0] + (":" + md[1] if md[0] == "err" else ""), 0) + 1
            if md[0] != r[0] or (md[0] == "ok" and md[1] != r[1]):
                mism["crafted"] += 1
                viol("correspondence:C15.decrypt-crafted", {"op": "decrypt", "kind": kind, "key": key.hex(),
                     "ciphertext": c2.hex(), "impl": repr(r)[:200], "model": repr(md)[:200]}, found_input=False)
        distinct.add((kind, c2, key))
    # random garbage (out of domain): both reject
    for i in range(50 if ctx.tier == "quick" else 1000):
        kind = rng.choice(KIND_ORDER)
        key = rng.randbytes(32)
        c2 = rng.randbytes(rng.choice([0, 1, 9, 10, 11, 26, 42, rng.randint(0, 100)]))
        r = impl_decrypt(kind, c2, key)
        evals += 1
        if r[0] == "ok":
            viol("oracle:garbage-accepted", {"op": "decrypt", "kind": kind, "key": key.hex(), "ciphertext": c2.hex(),
                 "expected": "rejected", "observed": r[1].hex()[:80]})
        if model:
            md = canon_model_dec(model.call("orun_decrypt", [c2, key, KINDS[kind]]))
            if md[0] != r[0]:
                mism["crafted"] += 1
                viol("correspondence:C15.decrypt-garbage", {"op": "decrypt", "kind": kind, "key": key.hex(),
                     "ciphertext": c2.hex(), "impl": repr(r)[:200], "model": repr(md)[:200]}, found_input=False)

    # ---------------- histories: one/two MediaCipher objects driven through call sequences
    hcalls, hmism = history_phase(ctx, model, viol, stats)
    evals += hcalls
    mism["sequence"] = hmism

    # ---------------- PKCS#7 model vs cryptography's padder / unpadder
    if model:
        from cryptography.hazmat.primitives import padding
        datas = [rng.randbytes(n) for n in range(0, 70)]
        got = model.call_many("run_pad", datas)
        for d, g in zip(datas, got):
            pd = padding.PKCS7(128).padder()
            if g != pd.update(d) + pd.finalize():
                mism["pad"] += 1
                viol("correspondence:C15.pad", {"op": "pad", "data": d.hex(), "model": repr(g)[:200]}, found_input=False)
        blocks = []
        for v in list(range(0, 20)) + [0x10, 0x11, 0x20, 0x80, 0xFF]:
            for nb in (1, 2):
                b = bytearray(rng.randbytes(16 * nb))
                b[-1] = v
                blocks.append(bytes(b))
                if 1 <= v <= 16:
                    b[-v:] = bytes([v]) * v
                    blocks.append(bytes(b))
                    for j in range(1, v):
                        b2 = bytearray(b)
                        b2[-1 - j] ^= rng.randint(1, 255)
                        blocks.append(bytes(b2))
        blocks += [b"", b"\x01", bytes(15), b"\x01" * 17]
        got = model.call_many("run_unpad", blocks)
        for d, g in zip(blocks, got):
            up = padding.PKCS7(128).unpadder()
            try:
                exp = [up.update(d) + up.finalize()]
            except ValueError:
                exp = []
            if g != exp:
                mism["pad"] += 1
                viol("correspondence:C15.unpad", {"op": "unpad", "data": d.hex(), "model": repr(g)[:200],
                                                   "cryptography": repr(exp)[:200]}, found_input=False)
        evals += len(datas) + len(blocks)
        model.close()
        ctx.ties["correspondence"] = "ok" if sum(mism.values()) == 0 else "broken: %r" % mism
        if stats.get("oracle_errors"):
            ctx.notes.append("oracle errors: %d (last %s)" % (stats["oracle_errors"], stats.get("oracle_last_error")))
    if not ctx.proof_ok and not ctx.violations:
        ctx.tie_broken_without_input("theorem:" + ctx.failing_theorem(), ctx.ties.get("proof"))
    if model is None and not ctx.violations:
        ctx.tie_broken_without_input("model-build:C15", ctx.ties.get("model-build:C15"))
    ctx.coverage["evaluations"] = evals
    ctx.coverage["distinct_nontrivial"] = len(distinct)
    ctx.coverage["case_origins"] = kinds
    ctx.coverage["plaintext_lengths_0_64_all_covered"] = all(n in lens_seen for n in range(65))
    ctx.coverage["max_plaintext_len"] = max(lens_seen) if lens_seen else 0
    ctx.coverage["tamper_variants_run_on_implementation"] = tam_total
    ctx.coverage["implementation_rejection_kinds"] = errkinds
    ctx.coverage["crafted_valid_mac_outcomes(model)"] = crafted_kinds
    ctx.coverage["model_oracle_calls"] = stats.get("oracle_calls", 0)
    ctx.coverage["mismatches"] = mism
    ctx.coverage["exhaustive"] = False
    return ctx.finish(
        rule="case = (media kind, plaintext, key); corpus first; then every plaintext length 0..64 x 4 kinds x "
             "fresh random 32-byte keys (plus endings 0x01 / 0x02 0x02 / 16 x 0x10 that look like padding); random "
             "lengths up to 64 KiB aimed at 16k-1/16k/16k+1, odd key lengths, free info strings; each case: "
             "library encrypt == model encrypt == independent implementation, byte for byte, and all three "
             "decrypt directions.  Then per ciphertext: every single-byte corruption position, every truncation, "
             "head cuts, extensions, wrong kind (3), wrong key (1 bit) on the implementation (must raise) and the "
             "model (must agree).  Then correctly-MACed crafted bodies (bad/edge paddings, non-block lengths) and "
             "garbage: model == code.  Then histories: every ordered pair of calls (enc / dec of a genuine file of "
             "each kind, 4 kinds, wrapper and generic entry points) key A -> key A or B on one object and across two "
             "objects, X-Y-X triples, seeded random sequences over 3 keys and 2 objects: every call must return what "
             "the pure model and the independent implementation give for its own arguments.  distinct_nontrivial = distinct (kind, plaintext, key) encrypt cases + "
             "distinct crafted valid-MAC decrypt cases (tamper variants are counted separately)",
        assumptions_text=ASSUME)


def replay(ctx, data):
    case = data["case"]
    op = case.get("op")
    kind = case.get("kind")
    key = bytes.fromhex(case.get("key", ""))
    if op == "roundtrip":
        if case.get("plaintext") is None:
            print("plaintext > 256 bytes was not stored; rerun with VERIF_SEED=%s" % data.get("seed"))
            return 0
        p = bytes.fromhex(case["plaintext"])
        info = info_of(kind)
        c = impl_encrypt(kind, p, key)
        rt = impl_decrypt(kind, c, key)
        rc = ref_encrypt(p, key, info)
        print("plaintext :", p.hex())
        print("library   :", c.hex())
        print("reference :", rc.hex())
        print("observed  : decrypt(encrypt(p)) =", rt)
        print("expected  : ('ok', p) and library == reference")
        bad = rt != ("ok", p) or rc != c or ref_decrypt(c, key, info) != p or impl_decrypt(kind, rc, key) != ("ok", p)
    elif op in ("tamper", "decrypt"):
        c2 = bytes.fromhex(case.get("tampered", case.get("ciphertext")))
        r = impl_decrypt(kind, c2, key)
        print("observed:", r)
        if op == "tamper":
            print("expected: an error")
            bad = r[0] == "ok"
        else:
            print("model said:", case.get("model"))
            bad = False
    elif op == "sequence":
        seq = seq_unjson(case["calls"])
        res = run_sequence(seq)
        bad = False
        for i, c in enumerate(seq):
            exp = expected_alone(c)
            flag = "" if res[i] == exp else "   <-- differs from what the call's own arguments determine"
            bad = bad or res[i] != exp
            print("call %d: obj%d.%s%s(%s, key=%s.., data=%s..)" % (
                i, c["inst"], "encrypt" if c["op"] == "enc" else "decrypt",
                "_" + c["kind"] if c["via"] == "wrapper" else "[generic,%s]" % c["kind"], c["kind"],
                c["key"].hex()[:8], c["data"].hex()[:24]))
            print("   observed:", res[i][0], res[i][1].hex()[:64] if len(res[i]) > 1 else "")
            print("   expected:", exp[0], (exp[1].hex()[:64] if len(exp) > 1 else "") + flag)
    elif op == "wrongkind":
        r = impl_decrypt(case["as_kind"], bytes.fromhex(case["ciphertext"]), key)
        print("observed:", r, "expected: an error")
        bad = r[0] == "ok"
    elif op == "wrongkey":
        r = impl_decrypt(kind, bytes.fromhex(case["ciphertext"]), bytes.fromhex(case["wrong_key"]))
        print("observed:", r, "expected: an error")
        bad = r[0] == "ok"
    else:
        print("nothing to replay for", data.get("what_no_longer_checks"), case)
        return 0
    if bad:
        print("VIOLATION property=C15 replay=(replayed)")
        return 1
    return 0
