"""C01 — stanza codec round-trip.  Model: coq/C01 (+ spec coq/C02); impl: coder/*.py."""
import os, json, glob, hashlib
from .. import modelrun, codec_common as cc
from ..env import VERIF
from ..translators import c01_dict

ASSUME = [
    "modelled, not verified: Python dict insertion order = attribute list order; str <-> Latin-1 bytes; "
    "ProtocolTreeNode constructor normalisation (children or [], attributes or {}); Python recursion limit "
    "(trees and JIDs nested deeper than ~300 levels raise RecursionError in the implementation, not in the model)",
    "translator harness/translators/c01_dict.py (token dictionary -> coq/Gen/C01Dict.v: list literals of __init__ AND the tables / getToken / getIndex of a TokenDictionary() built in a fresh interpreter, which must agree; measured alone when the source shape is not recognised; fail-closed)",
    "the tie model<->code for encoder.py/decoder.py/layer.py is differential testing over generated trees, the boundary "
    "set derived from the model's branch constants, mutated frames and random byte strings",
    "zlib is abstract in the theorems (Section variable `inflate`); the harness uses the real zlib",
]


def shrink_tree(t, fails, budget=200):
    """greedy structural shrinking while `fails(t)` stays true"""
    steps = 0
    changed = True
    while changed and steps < budget:
        changed = False
        tag, attrs, data, kids = t
        cands = []
        for i in range(len(kids)):
            cands.append((tag, attrs, data, kids[:i] + kids[i + 1:]))
        for k in kids:
            cands.append(k)
        for i in range(len(attrs)):
            cands.append((tag, attrs[:i] + attrs[i + 1:], data, kids))
        if data:
            cands.append((tag, attrs, data[:len(data) // 2], kids))
        for i, (k, v) in enumerate(attrs):
            if len(v) > 1:
                for v2 in (v[:len(v) // 2], v[1:]):
                    if v2 and not v2.endswith(b"@"):
                        cands.append((tag, attrs[:i] + [(k, v2)] + attrs[i + 1:], data, kids))
        if len(tag) > 1 and not tag[:len(tag) // 2].endswith(b"@"):
            cands.append((tag[:len(tag) // 2], attrs, data, kids))
        for c in cands:
            steps += 1
            if steps >= budget:
                break
            try:
                if fails(c):
                    t = c
                    changed = True
                    break
            except Exception:
                continue
    return t


class CoderRig(object):
    """YowCoderLayer between two recorders"""

    def __init__(self):
        from yowsup.layers.coder.layer import YowCoderLayer
        self.l = YowCoderLayer()
        self.up, self.low = [], []
        rig = self

        class U(object):
            def receive(self, d):
                rig.up.append(d)

        class L(object):
            def send(self, d):
                rig.low.append(bytes(d))
        self.l.setLayers(U(), L())

    def send(self, t):
        del self.low[:]
        self.l.send(cc.to_py(t))
        return list(self.low)

    def receive(self, b):
        del self.up[:]
        self.l.receive(b)
        return [cc.from_py(n) for n in self.up]


def mutate(rng, b):
    b = bytearray(b)
    for _ in range(rng.choice([1, 1, 2, 3])):
        op = rng.random()
        if op < .5 and len(b) > 1:
            b[rng.randrange(len(b))] = rng.choice([0, 1, 2, 3, 236, 239, 248, 249, 250, 251, 252, 253, 254, 255, rng.randint(0, 255)])
        elif op < .75 and len(b) > 2:
            del b[rng.randrange(len(b)):]
        else:
            b.insert(rng.randrange(len(b) + 1), rng.randint(0, 255))
    return bytes(b)


def load_corpus(pid):
    out = []
    for p in sorted(glob.glob(os.path.join(VERIF, "corpus", pid, "*.json"))):
        j = json.load(open(p))
        if "tree" in j:
            out.append(cc.tree_from_full_json(j["tree"]))
    return out


def run(ctx):
    # 0. translator
    try:
        prim, sec = c01_dict.regenerate()
        ctx.ties["translator:c01_dict"] = "ok"
        ctx.coverage["dictionary_translator_path"] = getattr(c01_dict.read_tables, "last_path", "?")
    except Exception as e:
        ctx.ties["translator:c01_dict"] = "broken: %s" % e
        prim = sec = None
    ctx.prove()
    exe = ctx.build_model("C01") if prim is not None else None
    enc, dec, _ = cc.impl_objects()
    if prim is None:
        from yowsup.layers.coder.tokendictionary import TokenDictionary
        td = TokenDictionary()
        prim, sec = list(td.dictionary), list(td.secondaryDictionary)
    g = cc.Gen(ctx.rng, prim, sec)
    corpus = load_corpus("C01")
    boundary = cc.boundary_trees(g, ctx.tier)
    if ctx.tier == "quick":
        # two >= 1 MiB cases stay in the quick tier (regression guard for the readInt31 repair)
        big = bytes(1 << 20)
        boundary.append((b"a", [], None, [(b"b", [], big, []), (b"c", [], None, [])]))
        boundary.append((b"a", [(b"k", b"v" * (1 << 20))], None, [(b"c", [], None, [])]))
    nrand = 1200 if ctx.tier == "quick" else 40000
    rand = [g.tree() for _ in range(nrand)]
    trees = corpus + boundary + rand
    kinds = {"corpus": len(corpus), "boundary": len(boundary), "random": len(rand)}

    # 1. encoder: implementation vs model, and the property oracle on the implementation
    ie = [cc.impl_encode(enc, t) for t in trees]
    me = modelrun.call_many_parallel(exe, "run_encode", [cc.tree_to_sx(t) for t in trees]) if exe else None
    id_ = [cc.impl_decode(dec, b) if b is not None else None for b in ie]
    enc_mismatch = rt_fail = 0

    def rt_fails(t):
        b = cc.impl_encode(enc, t)
        return b is not None and cc.impl_decode(dec, b) != ("ok", t)

    for i, t in enumerate(trees):
        b = ie[i]
        if b is None:
            ctx.violation("oracle:encoder-refused-wellformed-tree", {"tree": cc.tree_full_json(t)} if cc.tree_size(t) < 300 else {"tree_summary": cc.tree_json(t)})
            continue
        if id_[i] != ("ok", t):
            rt_fail += 1
            small = shrink_tree(t, rt_fails) if cc.tree_size(t) < 2000 else t
            bb = cc.impl_encode(enc, small)
            ctx.violation("oracle:roundtrip", {"tree": cc.tree_full_json(small) if len(bb) < 100000 else None,
                                               "tree_summary": cc.tree_json(small), "bytes": bb.hex()[:2000],
                                               "decoded": str(cc.impl_decode(dec, bb))[:1000]})
        if me is not None:
            mb = me[i][0] if (isinstance(me[i], list) and me[i]) else None
            if mb != b:
                enc_mismatch += 1

                def enc_differs(t2):
                    r = modelrun.call_many_parallel(exe, "run_encode", [cc.tree_to_sx(t2)], nproc=1)[0]
                    return (r[0] if r else None) != cc.impl_encode(enc, t2)
                small = shrink_tree(t, enc_differs, budget=60) if cc.tree_size(t) < 500 else t
                ctx.violation("correspondence:C01.encode", {"tree_summary": cc.tree_json(small),
                              "tree": cc.tree_full_json(small) if cc.tree_size(small) < 300 else None,
                              "impl": (cc.impl_encode(enc, small) or b"").hex()[:600]},
                              found_input=rt_fails(small))
    # 2. decoder: implementation vs model on encoder output, mutated output, random bytes
    frames = [b for b in ie if b is not None and len(b) < 200000]
    muts = [mutate(ctx.rng, b) for b in frames[:3000 if ctx.tier == "quick" else 30000]]
    rnd = [bytes(ctx.rng.choice([0, 0, 0, 1, 2, 3, 4, 5, 8, 9, 50, 236, 237, 248, 248, 249, 250, 251, 252, 253, 254, 255,
                                 ctx.rng.randint(0, 255)]) for _ in range(ctx.rng.randint(0, 30)))
           for _ in range(2000 if ctx.tier == "quick" else 40000)]
    big_frames = [b for b in ie if b is not None and len(b) >= 200000]
    dec_inputs = frames + big_frames + muts + rnd
    kinds.update({"decode:encoder-output": len(frames) + len(big_frames), "decode:mutated": len(muts), "decode:random-bytes": len(rnd)})
    dec_mismatch = accepted = 0
    if exe:
        idr = [cc.impl_decode(dec, b) for b in dec_inputs]
        mdr = [cc.model_decode_result(r) for r in modelrun.call_many_parallel(exe, "run_decode", dec_inputs)]
        for b, a, c in zip(dec_inputs, idr, mdr):
            if a[0] == "ok":
                accepted += 1
            if not cc.same_decode(a, c):
                dec_mismatch += 1
                ctx.violation("correspondence:C01.decode", {"frame": b.hex()[:4000], "impl": str(a)[:600], "model": str(c)[:600]},
                              found_input=False)
    # 3. through the real YowCoderLayer (send -> one bytearray; receive -> one node)
    rig = CoderRig()
    layer_cases = 0
    for t, b in list(zip(trees, ie))[:400]:
        if b is None or len(b) > 100000:
            continue
        layer_cases += 1
        out = rig.send(t)
        back = rig.receive(b)
        if out != [b] or back != [t]:
            ctx.violation("oracle:coder-layer", {"tree": cc.tree_full_json(t), "sent": [x.hex()[:200] for x in out],
                                                  "received": str(back)[:400]})
    # 4. list sizes beyond 16 bits: refused by both, never truncated
    for t in cc.oversize_trees():
        b = cc.impl_encode(enc, t)
        if b is not None:
            ctx.violation("oracle:oversize-list-truncated", {"tree_summary": cc.tree_json(t), "bytes_prefix": b[:16].hex()})
        if exe:
            r = modelrun.call_many_parallel(exe, "run_encode", [cc.tree_to_sx(t)], nproc=1)[0]
            if (r != []) != (b is not None):
                ctx.violation("correspondence:C01.encode-refusal", {"tree_summary": cc.tree_json(t)}, found_input=False)
    # verdict on broken ties without a concrete input
    if not ctx.proof_ok and not ctx.violations:
        ctx.tie_broken_without_input("theorem:" + ctx.failing_theorem(), ctx.ties.get("proof"))
    for k, v in list(ctx.ties.items()):
        if k.startswith(("translator", "model-build")) and v != "ok" and not ctx.violations:
            ctx.tie_broken_without_input(k, v)
    if exe:
        ctx.ties["correspondence"] = "ok" if enc_mismatch + dec_mismatch == 0 else "broken"
    seen, nontriv = set(), 0
    for t in trees:
        h = hashlib.sha1(repr(cc.tree_json(t, 64)).encode()).digest()
        if h not in seen:
            seen.add(h)
            if t[1] or t[2] is not None or t[3]:
                nontriv += 1
    ctx.coverage.update({"evaluations": len(trees) + len(dec_inputs) + layer_cases + 2, "distinct_nontrivial": nontriv,
                         "case_kinds": kinds, "decoder_inputs_accepted": accepted,
                         "roundtrip_failures": rt_fail, "encode_mismatches": enc_mismatch, "decode_mismatches": dec_mismatch,
                         "max_frame_bytes": max(len(b) for b in ie if b is not None)})
    for t in (rand[:3] + boundary[-2:]):
        ctx.add_sample(cc.tree_json(t, 48))
    return ctx.finish(
        rule="trees = corpus + boundary set (every dictionary word as tag/key/value/JID part, packed strings of every length "
             "1..255, length classes 127/128/255/256/65535/65536 and >= 1 MiB, attribute counts 126..129, children 255..257 "
             "(65535 in thorough), reserved words as JID parts, leading/multiple '@') + seeded random trees; decoder inputs = "
             "encoder output + mutated frames + random control-byte strings; non-trivial = distinct tree with attributes, data or children",
        assumptions_text=ASSUME)


def replay(ctx, data):
    case = data["case"]
    enc, dec, _ = cc.impl_objects()
    if case.get("tree"):
        t = cc.tree_from_full_json(case["tree"])
        b = cc.impl_encode(enc, t)
        r = cc.impl_decode(dec, b) if b is not None else None
        print("encoded:", None if b is None else b.hex()[:400])
        print("decoded:", str(r)[:800])
        if r != ("ok", t):
            print("VIOLATION property=C01 replay=(replayed)")
            return 1
    elif case.get("frame"):
        print("impl decode:", cc.impl_decode(dec, bytes.fromhex(case["frame"])))
    return 0
