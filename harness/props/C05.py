"""C05 — frame segmentation.  Model: coq/C05; implementation: YowNoiseSegmentsLayer."""
import itertools, struct, signal
from ..checklib import Ctx
from .. import modelrun

ASSUME = [
    "modelled: YowNoiseSegmentsLayer.send/receive incl. the PROP_ENABLED pass-through; Python bytes/bytearray "
    "slicing semantics = firstn/skipn; struct.pack('>I')[1:] = be24_bytes",
    "the tie model<->code is differential testing (exhaustive over all chunkings of short streams, random beyond)",
]


def _rec_class():
    """neighbour layers are real YowLayers (a layer may emit / broadcast events, look at its neighbours, ...)"""
    from yowsup.layers import YowLayer

    class Rec(YowLayer):
        def __init__(self):
            YowLayer.__init__(self)
            self.items = []
            self.events = []

        def receive(self, d):
            self.items.append(bytes(d))

        def send(self, d):
            self.items.append(bytes(d))

        def onEvent(self, ev):
            self.events.append(ev.getName())
            return False
    return Rec


class FakeStack(object):
    def __init__(self, enabled):
        self.enabled = enabled
        self.props = {}

    def getProp(self, key, default=None):
        from yowsup.layers.noise.layer_noise_segments import YowNoiseSegmentsLayer as L
        if key == L.PROP_ENABLED:
            return self.enabled
        return self.props.get(key, default)

    def setProp(self, key, val):
        self.props[key] = val

    def execDetached(self, fn):
        fn()


def mk_layer(enabled=True):
    from yowsup.layers.noise.layer_noise_segments import YowNoiseSegmentsLayer
    l = YowNoiseSegmentsLayer()
    Rec = _rec_class()
    up, low = Rec(), Rec()
    l.setLayers(up, low)
    up.setLayers(None, l)
    low.setLayers(l, None)
    st = FakeStack(enabled)
    for x in (l, up, low):
        x.setStack(st)
    return l, up, low


class Timeout(Exception):
    pass


def _alarm(signum, frame):
    raise Timeout()


def impl_recv(enabled, chunks, limit=0):
    """limit > 0: give up after that many seconds (a broken length decode can make the peel loop
    quadratic on a large buffer); returns ["timeout", ...] then"""
    l, up, _ = mk_layer(enabled)
    if limit:
        signal.signal(signal.SIGALRM, _alarm)
        signal.alarm(limit)
    try:
        for c in chunks:
            l.receive(bytes(c))
    except Timeout:
        return [["timeout after %d s" % limit] + up.items[:3], b""]
    except Exception as e:
        # receive() never raises on the unchanged layer, whatever the bytes: an exception is an observable outcome
        return [up.items + ["raised %s: %s" % (type(e).__name__, e)], bytes(getattr(l, "_read_buffer", b""))]
    finally:
        if limit:
            signal.alarm(0)
    return [up.items, bytes(l._read_buffer)]


def impl_send(enabled, data):
    l, _, low = mk_layer(enabled)
    try:
        l.send(data)
    except ValueError:
        return None
    return [low.items]


def wire(f):
    return struct.pack(">I", len(f))[1:] + f


def compositions(n):
    """all ways to cut a stream of n bytes: tuples of cut positions"""
    for mask in range(1 << (n - 1)):
        yield [i + 1 for i in range(n - 1) if mask >> i & 1]


def cut(stream, cuts):
    out, prev = [], 0
    for c in cuts + [len(stream)]:
        out.append(stream[prev:c])
        prev = c
    return out


def expected(frames, stream_len):
    """frames wholly contained in the first stream_len bytes + the remainder (spec)."""
    out, pos = [], 0
    full = b"".join(wire(f) for f in frames)
    for f in frames:
        if pos + 3 + len(f) <= stream_len:
            out.append(f)
            pos += 3 + len(f)
        else:
            break
    return [out, full[pos:stream_len]]


def gen_cases(ctx):
    rng = ctx.rng
    cases = []  # (kind, frames or None, chunks, in_domain)
    maxn = 12 if ctx.tier == "quick" else 15
    # exhaustive: every stream of <=3 short frames, every composition, and every prefix length
    shapes = []
    for k in (1, 2, 3):
        for lens in itertools.product(range(1, 9), repeat=k):
            if sum(lens) + 3 * k <= maxn:
                shapes.append(lens)
    for lens in shapes:
        b = itertools.count(0)
        frames = [bytes((next(b) * 37) % 256 for _ in range(n)) for n in lens]
        stream = b"".join(wire(f) for f in frames)
        for cuts in compositions(len(stream)):
            cases.append(("exh", frames, cut(stream, cuts), True))
    ctx.coverage["exhaustive_shapes"] = len(shapes)
    ctx.coverage["exhaustive_max_stream_bytes"] = maxn
    # prefixes: truncated streams (unfinished last frame), all compositions for small n
    for lens in shapes[:8]:
        frames = [bytes([i + 1] * n) for i, n in enumerate(lens)]
        stream = b"".join(wire(f) for f in frames)
        for plen in range(1, len(stream)):
            for cuts in compositions(plen):
                cases.append(("prefix", frames, cut(stream[:plen], cuts), True))
    # payloads that themselves read as length-prefixed segments: a chunk cut exactly around one must still be
    # taken as bytes of the frame being assembled (nothing about a chunk's own content decides framing)
    inner = [wire(b"A"), wire(b"AB"), wire(b"\x00"), wire(b"\x00\x00\x01"), b"\x00" + wire(b"A"),
             wire(b"A") + b"\x00", wire(wire(b"Z"))]
    for f in inner:
        stream = wire(f)
        for cuts in compositions(len(stream)):
            cases.append(("hdrlike", [f], cut(stream, cuts), True))
    for f in inner:
        for g in inner:
            stream = wire(b"q") + wire(f) + wire(g)
            allc = list(compositions(len(stream))) if len(stream) <= 10 else None
            for _ in range(60 if ctx.tier == "quick" else 600):
                cuts = sorted(set(rng.randint(1, len(stream) - 1) for _ in range(rng.randint(1, 6))))
                # aim at the inner boundaries: after each header, around each inner payload
                if rng.random() < .7:
                    cuts = sorted(set(cuts + [4, 7, 7 + len(f)] + ([7 + len(f) + 3] if rng.random() < .5 else [])))
                cases.append(("hdrlike", [b"q", f, g], cut(stream, [c for c in cuts if 0 < c < len(stream)]), True))
    # chunks of exactly the sizes a socket read returns when more was asked for than fits (both dispatchers read
    # 1024 bytes at a time; other power-of-two read sizes too): a full read says nothing about what follows, frames
    # complete at the end of such a chunk are due at once
    for rs in (1024, 2048, 4096, 65536):
        fams = [[rng.randbytes(rs - 3)],                                      # one frame = one full read
                [rng.randbytes(rs // 2 - 3), rng.randbytes(rs // 2 - 3)],     # two frames end on the read boundary
                [rng.randbytes(2 * rs - 3)],                                  # one frame = two full reads
                [b"ab", rng.randbytes(3 * rs - 3 - 5 - 10), rng.randbytes(7)],
                [rng.randbytes(rs + 5), rng.randbytes(rs - 5 - 6)]]           # a frame boundary inside the 2nd read
        for frames in fams:
            stream = b"".join(wire(f) for f in frames)
            assert len(stream) % rs == 0
            cases.append(("readsize", frames, cut(stream, list(range(rs, len(stream), rs))), True))
        frames = [rng.randbytes(997), rng.randbytes(18), rng.randbytes(rs // 2), rng.randbytes(rs - rs // 2 - 6)]
        stream = b"".join(wire(f) for f in frames)
        cases.append(("readsize", frames, cut(stream, [1000, 1024]), True))   # ... + 24 + one full read
        cases.append(("readsize", frames, cut(stream, [len(stream) - rs]), True))
    # random larger
    nrand = 300 if ctx.tier == "quick" else 6000
    for i in range(nrand):
        k = rng.choice([1, 1, 2, 3, 5, 8])
        frames = []
        for _ in range(k):
            cls = rng.random()
            n = rng.randint(1, 5) if cls < .3 else rng.randint(1, 300) if cls < .6 else \
                rng.choice([255, 256, 257, 65535, 65536, 65537, 70000]) if cls < .7 else rng.randint(1, 5000)
            frames.append(rng.randbytes(n))
        stream = b"".join(wire(f) for f in frames)
        if rng.random() < .3:
            stream = stream[:rng.randint(1, len(stream))]
        ncut = rng.choice([0, 1, 2, 5, 20])
        cuts = sorted(set(rng.randint(1, len(stream) - 1) for _ in range(ncut))) if len(stream) > 1 else []
        # aim cuts at header bytes
        if rng.random() < .5:
            pos = 0
            for f in frames:
                if 0 < pos + rng.randint(0, 3) < len(stream):
                    cuts.append(pos + rng.randint(1, 3))
                pos += 3 + len(f)
            cuts = sorted(set(c for c in cuts if 0 < c < len(stream)))
        cases.append(("rand", frames, cut(stream, cuts), True))
    # header boundary sizes: every byte of the 24-bit length is exercised (model side up to 1 MiB in
    # quick; the larger ones run on the implementation oracle only, see big_frame_oracle)
    for n in ([65535, 65536, 65537, 1 << 20, (1 << 20) + 257] if ctx.tier == "quick"
              else [65535, 65536, 65537, 1 << 20, (1 << 20) + 257, (1 << 21) + 3, (1 << 22) + 1]):
        frames = [b"ab", rng.randbytes(n), b"xyz"]
        stream = b"".join(wire(f) for f in frames)
        cuts = sorted(set([1, 2, 3, 5, 6, 7, 8, 9, n // 2, n + 7, n + 9, n + 10]))
        cases.append(("bigframe", frames, cut(stream, [c for c in cuts if 0 < c < len(stream)]), True))
        cases.append(("bigframe", frames, [stream], True))
    # out-of-domain / malformed: zero-length frames, random bytes (correspondence only)
    for i in range(200 if ctx.tier == "quick" else 3000):
        if rng.random() < .5:
            stream = rng.randbytes(rng.randint(0, 40))
            if rng.random() < .7 and len(stream) >= 3:
                stream = b"\x00\x00" + stream[2:]
        else:
            stream = b"".join(wire(rng.randbytes(rng.choice([0, 0, 1, 3]))) for _ in range(rng.randint(1, 4)))
        n = len(stream)
        cuts = sorted(set(rng.randint(1, n - 1) for _ in range(rng.choice([0, 1, 3])))) if n > 1 else []
        cases.append(("malformed", None, cut(stream, cuts), False))
    return cases


def run(ctx):
    ctx.prove()
    exe = ctx.build_model("C05")
    model = modelrun.Model(exe) if exe else None
    cases = gen_cases(ctx)
    # --- receive direction
    impl = [impl_recv(True, ch, limit=(20 if k == "bigframe" else 0)) for (k, _, ch, _) in cases]
    mod = model.call_many("run_recv_chunks", [[1, b"", ch] for (_, _, ch, _) in cases]) if model else None
    distinct, nontrivial = set(), 0
    kinds = {}
    mismatches = 0
    for i, (kind, frames, chunks, dom) in enumerate(cases):
        kinds[kind] = kinds.get(kind, 0) + 1
        key = (tuple(chunks))
        if key not in distinct:
            distinct.add(key)
            if len(chunks) >= 2:
                nontrivial += 1
        got = impl[i]
        if dom:
            exp = expected(frames, sum(len(c) for c in chunks))
            if got != exp:
                if sum(len(c) for c in chunks) > 100000:
                    ctx.violation("oracle:reassembly(large frame)", {"frame_sizes": [len(f) for f in frames],
                                  "chunk_sizes": [len(c) for c in chunks][:40],
                                  "observed_frame_sizes": [len(f) if isinstance(f, bytes) else f for f in got[0]][:20],
                                  "buffer_left": len(got[1])})
                else:
                    ctx.violation("oracle:reassembly", {"frames": [f.hex() for f in frames],
                                  "chunks": [c.hex() for c in chunks], "expected": repr(exp)[:400],
                                  "observed": repr(got)[:400]})
        if mod is not None and list(map(list, [mod[i][0], ])) is not None:
            m = mod[i]
            if isinstance(m, tuple) or [list(m[0]), m[1]] != [got[0], got[1]]:
                mismatches += 1
                ctx.violation("correspondence:C05.recv", {"chunks": [c.hex()[:400] for c in chunks][:50], "chunk_sizes": [len(c) for c in chunks][:50],
                              "model": repr(m)[:400], "impl": repr(got)[:400],
                              "frames": [f.hex()[:400] for f in frames] if frames else None},
                              found_input=not dom and False or _oracle_fails(frames, chunks, got, dom))
        if i % 997 == 0:
            ctx.add_sample({"kind": kind, "chunks": [c.hex()[:40] for c in chunks][:6],
                            "frames_up": len(got[0]), "buffer_left": len(got[1])})
    # --- send direction
    sizes = [0, 1, 2, 255, 256, 65535, 65536, 70000]
    send_cases = [(en, ctx.rng.randbytes(n)) for n in sizes for en in (True, False)]
    for en, d in send_cases:
        got = impl_send(en, d)
        exp = [[struct.pack(">I", len(d))[1:], d]] if en else [[d]]
        if got != exp:
            ctx.violation("oracle:send_format", {"enabled": en, "len": len(d), "observed": repr(got)[:300]})
        if model:
            m = model.call("run_send", [en, d])
            if m != got and not (m == [] and got is None):
                ctx.violation("correspondence:C05.send", {"enabled": en, "len": len(d)}, found_input=False)
    # 24-bit boundary on the implementation (cheap), and on the model in thorough
    big_ok = impl_send(True, bytes(16777215))
    if big_ok is None or big_ok[0][0] != b"\xff\xff\xff" or len(big_ok[0][1]) != 16777215:
        ctx.violation("oracle:send_max_frame", {"len": 16777215, "observed": repr(big_ok)[:100]})
    for en in (True, False):
        if impl_send(en, bytes(16777216)) is not None:
            ctx.violation("oracle:send_refuses", {"len": 16777216, "enabled": en,
                                                  "observed": "accepted a 2^24-byte payload"})
    if model and ctx.tier == "thorough":
        if model.call("run_send", [True, bytes(16777216)]) != []:
            ctx.violation("correspondence:C05.send", {"len": 16777216}, found_input=False)
    # --- large frames on the implementation alone (property oracle; sizes setting each of the
    # high length bits, up to the 2^24-1 maximum)
    big_sizes = [(1 << 20), (1 << 21) + 1, (1 << 22) + 5, (1 << 23) + 9, 16777215]
    for n in big_sizes:
        frames = [b"h", bytes(n), b"tail"]
        stream = b"".join(wire(f) for f in frames)
        for chunks in ([stream], cut(stream, [2, 4, 4 + n // 3, n + 4, n + 6]), cut(stream, list(range(65536, len(stream), 65536)))):
            got = impl_recv(True, chunks, limit=20)
            exp = expected(frames, len(stream))
            if got != exp:
                ctx.violation("oracle:reassembly(large frame)", {"frame_sizes": [len(f) for f in frames],
                              "chunk_sizes": [len(c) for c in chunks][:40],
                              "observed_frame_sizes": [len(f) if isinstance(f, bytes) else f for f in got[0]][:20],
                              "buffer_left": len(got[1])})
                break
    ctx.coverage["large_frame_sizes_on_implementation"] = big_sizes
    # --- pass-through
    for _ in range(20):
        chunks = [ctx.rng.randbytes(ctx.rng.randint(0, 10)) for _ in range(ctx.rng.randint(0, 5))]
        got = impl_recv(False, chunks)
        if got != [chunks, b""]:
            ctx.violation("oracle:passthrough", {"chunks": [c.hex() for c in chunks], "observed": repr(got)})
        if model:
            m = model.call("run_recv_chunks", [0, b"", chunks])
            if [list(m[0]), m[1]] != got:
                ctx.violation("correspondence:C05.passthrough", {"chunks": [c.hex() for c in chunks]},
                              found_input=False)
    if model:
        model.close()
        ctx.ties["correspondence"] = "ok" if mismatches == 0 else "broken"
    if not ctx.proof_ok and not ctx.violations:
        ctx.tie_broken_without_input("theorem:" + ctx.failing_theorem(), ctx.ties.get("proof"))
    if model is None and not ctx.violations:
        ctx.tie_broken_without_input("model-build:C05", ctx.ties.get("model-build:C05"))
    ctx.coverage["evaluations"] = len(cases) + len(send_cases) + 3 + 20
    ctx.coverage["distinct_nontrivial"] = nontrivial
    ctx.coverage["case_kinds"] = kinds
    ctx.coverage["exhaustive"] = False
    return ctx.finish(
        rule="cases = (frame list, chunking); exhaustive over every composition of every stream of <=3 frames "
             "with <= N wire bytes (N in coverage), every prefix length of 8 of those streams x every composition, "
             "random frame lists 1B..70KiB with cuts aimed at header bytes, malformed/zero-length streams "
             "(correspondence only); non-trivial = distinct chunking with >= 2 chunks",
        assumptions_text=ASSUME)


def _oracle_fails(frames, chunks, got, dom):
    if not dom:
        return False
    return got != expected(frames, sum(len(c) for c in chunks))


def replay(ctx, data):
    case = data["case"]
    if "frame_sizes" in case:
        frames = [bytes(n) for n in case["frame_sizes"]]
        stream = b"".join(wire(f) for f in frames)
        cuts, pos = [], 0
        for n in case["chunk_sizes"][:-1]:
            pos += n
            cuts.append(pos)
        got = impl_recv(True, cut(stream, cuts))
        print("observed frame sizes:", [len(f) for f in got[0]], "buffer:", len(got[1]))
        if got != expected(frames, len(stream)):
            print("VIOLATION property=C05 replay=(replayed)")
            return 1
        return 0
    chunks = [bytes.fromhex(c) for c in case.get("chunks", [])]
    got = impl_recv(True, chunks)
    print("observed:", got)
    if case.get("frames"):
        frames = [bytes.fromhex(f) for f in case["frames"]]
        exp = expected(frames, sum(len(c) for c in chunks))
        print("expected:", exp)
        if got != exp:
            print("VIOLATION property=C05 replay=%s" % "(replayed)")
            return 1
    return 0
