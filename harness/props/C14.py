"""C14 — one-time prekeys: none lost or re-offered between generation, upload and use.

Model: coq/C14.  Implementation: the real AxolotlControlLayer on the real AxolotlManager
(built by the real AxolotlManagerFactory) on the real SQLite store, COUNT_GEN_PREKEYS set
small, against a server double that keeps the prekey directory and real Signal peers
(python-axolotl SessionBuilder/SessionCipher) that consume one-time prekeys.
"""
import os, json, hashlib, shutil, io, contextlib, glob, sqlite3, re
from .. import modelrun

ASSUME = [
    "modelled, not verified: python-axolotl (key generation, signatures, the ratchet; a one-time prekey is "
    "removed after the first successful pkmsg decrypt), SQLite, the iq registry of YowProtocolLayer as coded",
    "key material is abstract in the model (the n-th generated key is the number n); the harness numbers the real "
    "keys in order of appearance in the store and checks sizes, identity, registration id and the signed-prekey "
    "signature (axolotl Curve.verifySignature) on every real upload stanza",
    "prekey ids stay far below python-axolotl's wrap-around at 2^24-2 and signed prekey ids below "
    "MAX_SIGNED_PREKEY_ID (its wrap expression is a float under Python 3); restarts happen at call boundaries "
    "(a crash in the middle of storing a batch is not modelled)",
    "histories of the theorems about re-offering are the well-formed ones (C14Model.wf): one login per connection "
    "whose passive flag is the stack property the layer set itself, server requests / replies / messages only on "
    "an authenticated connection, replies only to uploads sent on that connection; the correspondence also runs "
    "ill-formed histories",
    "the tie model<->code is differential testing of every history step (events and state), not a proof",
]

KNOWN_KEY = "prekey-id-reissued:refill-after-highest-issued-id-was-consumed"
# second open finding: a key consumed while it sits in the layer's in-memory _unsent_prekeys list
# (possible only after a NON-passive login with keys waiting) is offered again at the next
# passive login on the same layer instance.  Matched on exactly those keys, nothing else.
KNOWN_KEY2 = "consumed-key-reoffered:stale-unsent-list-after-nonpassive-login"
SERVER = "s.whatsapp.net"


# ---------------------------------------------------------------- rig
class Low(object):
    def __init__(self, rig):
        self.rig = rig

    def send(self, node):
        if not self.rig.dead:        # a killed process sends nothing any more
            self.rig.sent.append(node)

    def onEvent(self, ev):
        if not self.rig.dead:
            self.rig.broadcasts.append(ev.getName())
        return True

    def broadcastEvent(self, ev):
        pass


class Up(object):
    def __init__(self, rig):
        self.rig = rig

    def receive(self, node):
        if not self.rig.dead:
            self.rig.upper.append(node)

    def onEvent(self, ev):
        return True


class FakeNetIface(object):
    def __init__(self, rig):
        self.rig = rig

    def connect(self):
        if not self.rig.dead:
            self.rig.connect_requests += 1


class FakeStack(object):
    def __init__(self, rig):
        self.rig = rig
        self.props = {}

    def getProp(self, k, default=None):
        return self.props.get(k, default)

    def setProp(self, k, v):
        self.props[k] = v

    def getLayerInterface(self, cls):
        return FakeNetIface(self.rig)


class Rig(object):
    """One account: profile dir + (re)constructible control layer; a server double; peers."""

    def __init__(self, scratch, batch, tag):
        from yowsup.axolotl.manager import AxolotlManager
        self.M = AxolotlManager
        self._saved_batch = AxolotlManager.COUNT_GEN_PREKEYS
        AxolotlManager.COUNT_GEN_PREKEYS = batch
        self.base_name = os.path.join(scratch, "c14-%s" % tag)
        for d in glob.glob(self.base_name + "*"):
            shutil.rmtree(d, ignore_errors=True)
        self.profile_name = self.base_name
        os.makedirs(self.profile_name)
        self.n_kills = 0
        self.dead = False            # the process was killed inside the current operation (what still runs is a zombie)
        self.kill_info = None
        self.phone = "4915550001"
        self.serial_of = {}          # public key bytes -> serial
        self.directory = {}          # id -> bundle dict (server side, popped when handed out)
        self.handed = {}             # id -> last bundle handed to a peer
        self.uploads = {}            # iq index -> parsed upload
        self.iq_ids = {}             # iq index -> stanza id
        self.n_uploads = 0
        self.n_peers = 0
        self.n_notif = 0
        self.start()

    def start(self):
        from yowsup.layers.axolotl.layer_control import AxolotlControlLayer
        from yowsup.profile.profile import YowProfile
        from yowsup.config.v1.config import Config
        self.sent, self.upper, self.broadcasts, self.connect_requests = [], [], [], 0
        self.stack = FakeStack(self)
        self.profile = YowProfile(self.profile_name, Config(phone=self.phone))
        self.stack.props["profile"] = self.profile
        self.layer = AxolotlControlLayer()
        self.layer.setLayers(Up(self), Low(self))
        self.layer.setStack(self.stack)

    def close(self):
        self.M.COUNT_GEN_PREKEYS = self._saved_batch
        self._drop(self.profile)
        self.layer = self.profile = None
        for d in glob.glob(self.base_name + "*"):
            shutil.rmtree(d, ignore_errors=True)

    @staticmethod
    def _drop(profile):
        """the process is gone: its connection goes away WITHOUT a commit (sqlite3's close() does not commit;
        whatever the library left in an open transaction is lost, exactly as after a kill)"""
        mgr = getattr(profile, "_axolotl_manager", None)
        try:
            mgr._store.preKeyStore.dbConn.close()
        except Exception:
            pass

    def kill_and_restart(self):
        """restart = what the DATABASE FILE holds: the profile directory (db + a possibly hot -journal) is copied
        as it is on disk at this moment and the new process - new layer, manager, store object - opens the copy;
        the harness never commits on the library's connection"""
        old_profile, old_dir = self.profile, self.profile_name
        self.n_kills += 1
        new_dir = "%s.k%d" % (self.base_name, self.n_kills)
        shutil.copytree(old_dir, new_dir)
        self.profile_name = new_dir
        self.start()
        self._drop(old_profile)
        shutil.rmtree(old_dir, ignore_errors=True)

    # -- the process is KILLED at a write boundary INSIDE an operation
    #    SQLite's own statement trace on the library's connection: the callback runs BEFORE the statement executes, so
    #    at the callback the profile directory (db + rollback journal) is exactly what a process killed before that
    #    statement leaves behind.  spec = ["pk_insert", n]: before the n-th INSERT into the prekeys table of this
    #    operation; ["pk_commit", n]: before the COMMIT that follows it; ["first"]: before the first writing statement.
    #    At the boundary the directory is copied (the image) and the process is declared dead: whatever the still
    #    running interpreter emits afterwards is dropped.  When the operation returns the new process starts on the image.
    PK_INSERT = re.compile(r"^\s*(INSERT|REPLACE)\b.*\bINTO\s+PREKEYS\b", re.I | re.S)
    WRITE = re.compile(r"^\s*(INSERT|UPDATE|DELETE|REPLACE)\b", re.I)

    def arm_kill(self, spec):
        self.dead, self.kill_info = False, None
        st = {"pk": 0, "after_pk": False}
        image = "%s.k%d" % (self.base_name, self.n_kills + 1)
        rig = self

        def fire(where):
            shutil.rmtree(image, ignore_errors=True)
            shutil.copytree(rig.profile_name, image)
            rig.dead = True
            rig.kill_info = {"spec": list(spec), "at": where, "image": image, "prekey_inserts_started": st["pk"]}

        def on_sql(stmt):
            if rig.dead:
                return
            is_pk = bool(rig.PK_INSERT.match(stmt))
            is_commit = stmt.lstrip().upper().startswith("COMMIT")
            if spec[0] == "first" and (rig.WRITE.match(stmt) or is_commit):
                return fire(stmt.strip()[:40])
            if is_pk:
                st["pk"] += 1
                st["after_pk"] = True
                if spec[0] == "pk_insert" and st["pk"] == spec[1]:
                    st["pk"] -= 1
                    return fire("before prekey insert #%d" % spec[1])
            elif is_commit and st["after_pk"]:
                st["after_pk"] = False
                if spec[0] == "pk_commit" and st["pk"] == spec[1]:
                    return fire("before the commit of prekey insert #%d" % spec[1])

        self._kconn = self.store.preKeyStore.dbConn
        self._kconn.set_trace_callback(on_sql)

    def finish_kill(self):
        """after the operation returned: stop tracing; if the boundary was reached the new process opens the image"""
        try:
            self._kconn.set_trace_callback(None)
        except Exception:
            pass
        if not self.dead:
            return False
        old_profile, old_dir = self.profile, self.profile_name
        try:
            before = set((r[0], r[1]) for r in self.live_rows)
            self.kill_info["rows_before"] = list(self.live_rows)
            self.kill_info["zombie_new"] = [(r[0], r[1]) for r in self.rows_of(self.store)
                                            if (r[0], r[1]) not in before]
        except Exception:
            self.kill_info["zombie_new"] = None
        self.n_kills += 1
        self.profile_name = self.kill_info["image"]
        self.start()
        self._drop(old_profile)
        shutil.rmtree(old_dir, ignore_errors=True)
        self.dead = False
        return True

    def file_rows(self):
        """the store as the file holds it right now, read from a COPY of the profile directory (never through a
        second connection to the library's own file): [(id, public key, sent flag)]"""
        snap = self.base_name + ".snap"
        shutil.rmtree(snap, ignore_errors=True)
        shutil.copytree(self.profile_name, snap)
        from yowsup.axolotl.store.sqlite.liteaxolotlstore import LiteAxolotlStore
        from yowsup.axolotl.factory import AxolotlManagerFactory
        st = LiteAxolotlStore(os.path.join(snap, AxolotlManagerFactory.DB))
        try:
            rows = self.rows_of(st)
        finally:
            try:
                st.preKeyStore.dbConn.close()
            except Exception:
                pass
            shutil.rmtree(snap, ignore_errors=True)
        return rows

    @staticmethod
    def rows_of(st):
        unsent = set(r.getId() for r in st.preKeyStore.loadUnsentPendingPreKeys())
        return [(r.getId(), r.getKeyPair().getPublicKey().serialize()[1:], r.getId() not in unsent)
                for r in st.loadPreKeys()]

    @property
    def manager(self):
        return self.profile.axolotl_manager

    @property
    def store(self):
        return self.profile.axolotl_manager._store

    # -- observation
    def observe(self):
        st = self.store
        rows = []
        self.live_rows = self.rows_of(st)
        for rid, pub, sent in self.live_rows:
            if pub not in self.serial_of:
                self.serial_of[pub] = len(self.serial_of)
            rows.append([rid, self.serial_of[pub], sent])
        signed = [r.getId() for r in st.loadSignedPreKeys()]
        from yowsup.layers.auth.layer_authentication import YowAuthenticationProtocolLayer as A
        un = [[r.getId(), self.serial_of.get(r.getKeyPair().getPublicKey().serialize()[1:], 99999)]
              for r in self.layer._unsent_prekeys]
        return {"rows": rows, "signed": signed, "unsent": un,
                "passive": bool(self.stack.props.get(A.PROP_PASSIVE, False))}

    # -- delivering things to the layer
    def event(self, name, **kw):
        from yowsup.layers import YowLayerEvent
        self.layer.onEvent(YowLayerEvent(name, **kw))

    def parse_upload(self, node):
        u = {"stanza_id": node["id"], "attrs": {k: node[k] for k in ("xmlns", "type", "to")}}
        u["keys"] = [(k.getChild("id").data, k.getChild("value").data) for k in node.getChild("list").getAllChildren()]
        u["identity"] = node.getChild("identity").data
        u["registration"] = node.getChild("registration").data
        u["type"] = node.getChild("type").data
        sk = node.getChild("skey")
        u["skey"] = (sk.getChild("id").data, sk.getChild("value").data, sk.getChild("signature").data)
        return u

    def do(self, op, real_rows_before, kill=None):
        """run one op on the implementation; returns canonical event list.  kill = boundary spec: the process dies
        inside the operation (see arm_kill); self.killed tells whether the boundary was reached"""
        self.killed = False
        if kill is not None:
            self.arm_kill(kill)
            try:
                return self._do(op, real_rows_before)
            finally:
                self.killed = self.finish_kill()
        return self._do(op, real_rows_before)

    def _do(self, op, real_rows_before):
        from yowsup.layers.network.layer import YowNetworkLayer
        from yowsup.layers.auth.layer_authentication import YowAuthenticationProtocolLayer as A
        from yowsup.structs import ProtocolTreeNode
        from yowsup.axolotl import exceptions as yex
        self.sent, self.upper, self.broadcasts, self.connect_requests = [], [], [], 0
        kind = op[0]
        evs, exn = [], False
        try:
            if kind == "connect":
                self.event(YowNetworkLayer.EVENT_STATE_CONNECTED)
            elif kind == "authed":
                self.event(A.EVENT_AUTHED, passive=bool(op[1]))
            elif kind == "askkeys":
                self.n_notif += 1
                n = ProtocolTreeNode("notification", {"from": SERVER, "type": "encrypt", "id": "n%d" % self.n_notif,
                                                      "t": "1500000000"})
                n.addChild(ProtocolTreeNode("count", {"value": "3"}))
                self.layer.receive(n)
            elif kind in ("result", "error"):
                sid = self.iq_ids.get(op[1], "unknown-%d" % op[1])
                n = ProtocolTreeNode("iq", {"from": SERVER, "type": kind, "id": sid})
                if kind == "error":
                    n.addChild(ProtocolTreeNode("error", {"code": "500", "text": "internal-server-error"}))
                self.layer.receive(n)
            elif kind == "disconnected":
                self.event(YowNetworkLayer.EVENT_STATE_DISCONNECTED)
            elif kind == "restart":
                self.kill_and_restart()
            elif kind == "consume":
                pass
        except Exception as e:
            exn = True
            self.last_exn = repr(e)
        # the layer's outputs, in the model's vocabulary
        acks = [n for n in self.sent if n.tag == "ack"]
        ups = [n for n in self.sent if n.tag == "iq"]
        other = [n for n in self.sent if n.tag not in ("ack", "iq")]
        if acks:
            evs.append(["ack"])
        for n in ups:
            u = self.parse_upload(n)
            idx = self.n_uploads
            self.n_uploads += 1
            self.uploads[idx] = u
            self.iq_ids[idx] = u["stanza_id"]
            u["index"] = idx
            u["rows_at_upload"] = [] if self.dead else self.observe()["rows"]
            evs.append(["upload", idx, u])
        if other:
            evs.append(["unexpected-stanza", [n.tag for n in other]])
        for b in self.broadcasts:
            evs.append(["disconnect-req"] if b == YowNetworkLayer.EVENT_STATE_DISCONNECT else ["broadcast", b])
        for _ in range(self.connect_requests):
            evs.append(["connect-req"])
        if exn:
            evs.append(["exn"])
        if self.upper:
            evs.append(["upper"])
        if kind == "consume":
            evs += self.consume(op[1], op[2])
        return evs

    # -- server double + peers
    def server_accept(self, u):
        """the upload reached the server: its keys enter the directory"""
        for kid, val in u["keys"]:
            self.directory[int.from_bytes(kid, "big")] = {"id": kid, "value": val, "skey": u["skey"],
                                                          "identity": u["identity"], "registration": u["registration"]}

    def consume(self, kid, source):
        from axolotl.sessionbuilder import SessionBuilder
        from axolotl.sessioncipher import SessionCipher
        from axolotl.state.prekeybundle import PreKeyBundle
        from axolotl.ecc.djbec import DjbECPublicKey
        from axolotl.identitykey import IdentityKey
        from yowsup.axolotl.store.sqlite.liteaxolotlstore import LiteAxolotlStore
        from yowsup.axolotl import exceptions as yex
        b = self.directory.pop(kid, None) if source == "directory" else self.handed.get(kid)
        if b is None:
            return [["no-bundle"]]
        self.handed[kid] = b
        self.n_peers += 1
        peer_name = "49160%04d" % self.n_peers
        ps = LiteAxolotlStore(":memory:")
        bundle = PreKeyBundle(int.from_bytes(b["registration"], "big"), 1, int.from_bytes(b["id"], "big"),
                              DjbECPublicKey(b["value"]), int.from_bytes(b["skey"][0], "big"),
                              DjbECPublicKey(b["skey"][1]), b["skey"][2], IdentityKey(DjbECPublicKey(b["identity"])))
        SessionBuilder(ps, ps, ps, ps, self.phone, 1).processPreKeyBundle(bundle)   # verifies the signature
        msg = SessionCipher(ps, ps, ps, ps, self.phone, 1).encrypt(b"first message" + b"\x03\x03\x03")
        try:
            plain = self.manager.decrypt_pkmsg(peer_name, msg.serialize(), False)
        except yex.InvalidKeyIdException:
            return [["invalid-key"]]
        except yex.InvalidMessageException:
            return [["invalid-message"]]
        except sqlite3.OperationalError as e:
            return [["store-error", repr(e)[:80]]]
        if bytes(plain) != b"first message":
            return [["wrong-plaintext", repr(plain)[:60]]]
        return [["consumed", self.serial_of.get(b["value"], 99999)]]


# ---------------------------------------------------------------- one history
OPCODE = {"connect": 0, "authed": 1, "askkeys": 2, "result": 3, "error": 4, "disconnected": 5, "consume": 6,
          "restart": 7}


def model_op(op):
    if op[0] == "kill":        # ("kill", kind, spec, m, signed-prekey-stored): XKillConnect m / XKillAsk sg m
        return [8, op[3]] if op[1] == "connect" else [9, op[3], 1 if op[4] else 0]
    if op[0] == "authed":
        return [1, 1 if op[1] else 0]
    if op[0] in ("result", "error", "consume"):
        return [OPCODE[op[0]], op[1]]
    return [OPCODE[op[0]]]


def canon_model_events(mevs):
    out = []
    for e in mevs:
        c = e[0]
        if c == 0:
            out.append(["upload", e[1], e[2], sorted([list(p) for p in e[3]]), bool(e[4])])
        elif c == 6:
            out.append(["consumed", e[1]])
        else:
            out.append([{1: "ack", 2: "disconnect-req", 3: "connect-req", 4: "exn", 5: "upper", 7: "invalid-key"}[c]])
    return out


def canon_impl_events(rig, evs):
    """impl events in the model's vocabulary and order (ack, uploads, disconnect-req, connect-req, exn, upper)"""
    out = []
    for e in evs:
        if e[0] == "upload":
            u = e[2]
            keys = sorted([int.from_bytes(k, "big"), rig.serial_of.get(v, 99999)] for k, v in u["keys"])
            out.append(["upload", e[1], int.from_bytes(u["skey"][0], "big"), keys, None])
        else:
            out.append(list(e))
    return out


class HistoryRun(object):
    """Drives one history on the implementation, with the choices that depend on the run
    (which upload to answer, which id to consume) resolved on the fly from the rig."""

    def __init__(self, ctx, batch, script, tag):
        self.ctx, self.batch, self.script, self.tag = ctx, batch, script, tag
        self.ops = []            # resolved ops
        self.op_wf = []          # per resolved op: was the script step server-realistic
        self.steps = []          # (op, impl events canonical, impl state)
        self.problems = []       # (name, detail, key)
        self.reuse_seen = False
        self.stale_consumed = set()   # (id, key bytes) consumed while in layer._unsent_prekeys
        self.stale_serial = set()     # the same as (id, serial)
        self.nontrivial = set()
        self.ledger = []              # one entry per upload stanza: where, which ids, how it was answered
        self.tie_breaks = []          # store API calls after which the file did not hold what the connection sees
        self.soft = set()             # indexes of problems that do not end the history

    def run(self):
        # manager.level_prekeys writes progress to sys.stdout whenever its logger has no level set
        import io, contextlib
        with contextlib.redirect_stdout(io.StringIO()):
            return self._run()

    def _run(self):
        rig = Rig(self.ctx.scratch, self.batch, self.tag)
        self.rig = rig
        offered = {}             # id -> set of key bytes ever offered
        offered_live = {}        # (id,key) offered and not consumed
        confirmed_keys = set()   # (id, key) contained in a confirmed upload
        issued_hi = 0
        consumed_ids = set()
        consumed_keys = set()         # (id, public key) used up by a first message
        connected = authed = False
        conn_uploads = []        # upload indexes sent on this connection
        pending = []
        hist_wf = True
        try:
            for sop in self.script:
                hist_wf = hist_wf and sop.get("wf", True)
                before = rig.observe()
                confirmed_before = set(confirmed_keys)
                op = self.resolve(sop, rig, before, pending, conn_uploads)
                if op is None:
                    continue
                max_before = max([r[0] for r in before["rows"]] or [0])
                kill = sop.get("kill") if op[0] in ("connect", "askkeys") else None
                evs = rig.do(op, before, kill=kill)
                after = rig.observe()
                if kill is not None and rig.killed:
                    # the process died inside the operation and was restarted from the image: what the file holds is the
                    # rows before the operation plus the first m keys of the batch (+ possibly the new signed prekey)
                    old_pubs = set(r[1] for r in before["rows"])
                    m_new = [r for r in after["rows"] if r[1] not in old_pubs]
                    op = ("kill", op[0], list(kill), len(m_new), len(after["signed"]) > len(before["signed"]))
                    self.nontrivial.add("kill-inside-generation" if m_new else "kill-inside-operation")
                    zn = rig.kill_info.get("zombie_new")
                    got = [(r[0], r[1]) for r in rig.live_rows if (r[0], r[1]) not in
                           set((b[0], b[1]) for b in rig.kill_info.get("rows_before", []))]
                    if zn is not None and got != zn[:len(got)]:
                        self.tie_breaks.append({"step": len(self.ops), "op": list(op[:3]),
                                                "what": "after a kill inside the operation the file does not hold the rows "
                                                        "before it plus a prefix of the generated batch",
                                                "ids_in_file": [g[0] for g in got], "batch_ids": [z[0] for z in zn]})
                # durable state = live state after every call (the model commits per store call): the file, read
                # from a copy, must hold exactly the rows the library's own connection sees
                try:
                    on_file = rig.file_rows()
                except sqlite3.Error as e:
                    on_file = None
                    self.tie_breaks.append({"step": len(self.ops), "op": list(op), "what": "store file unreadable: %r" % (e,)})
                if on_file is not None and sorted(on_file) != sorted(rig.live_rows):
                    only_live = sorted(r[0] for r in rig.live_rows if r not in on_file)
                    only_file = sorted(r[0] for r in on_file if r not in rig.live_rows)
                    self.tie_breaks.append({
                        "step": len(self.ops), "op": list(op), "only_on_connection": only_live,
                        "only_in_file": only_file,
                        "what": "after %s returned the library's connection holds prekey rows %s that the database "
                                "file does not (a write transaction was left open): a kill now loses them"
                                % (op[0], only_live if only_live else only_file)})
                self.ops.append(op)
                self.op_wf.append(bool(sop.get("wf", True)))
                cevs = canon_impl_events(rig, evs)
                self.steps.append((op, cevs, after))
                # ---- bookkeeping of the outside world
                new_ids = [r[0] for r in after["rows"] if r[1] not in [x[1] for x in before["rows"]]]
                if new_ids:
                    if max_before < issued_hi:
                        # the refill started below an id issued earlier.  The listed finding explains that only
                        # when every id above the refill's start had been consumed by a first message
                        gone = [i for i in range(max_before + 1, issued_hi + 1) if i not in consumed_ids]
                        if not gone:
                            self.reuse_seen = True
                        elif any(i in offered for i in gone):
                            gone = [i for i in gone if i in offered]
                            self.problems.append(("oracle:issued_ids_lost", {
                                "step": len(self.ops) - 1, "ids": gone[:20], "refill_starts_at": max_before + 1,
                                "what": "prekey ids %s were offered to the server and never consumed, but they are no longer "
                                        "in the store and the refill re-issues them with new key pairs" % gone[:20]},
                                None))
                    issued_hi = max(issued_hi, max(new_ids))
                was_authed = authed
                if op[0] == "connect":
                    connected, authed, conn_uploads = True, False, []
                elif op[0] == "authed":
                    authed = connected
                elif op[0] in ("disconnected", "restart", "kill"):
                    connected = authed = False
                    if op[0] in ("restart", "kill"):
                        pending = []
                for e in evs:
                    if e[0] == "upload":
                        u = e[2]
                        pending.append(e[1])
                        conn_uploads.append(e[1])
                        rig.server_accept(u)         # the stanza reached the server (its reply may get lost)
                        self.ledger.append({"stanza": e[1], "step": len(self.ops) - 1, "sent_at": op[0],
                                            "ids": sorted(int.from_bytes(k, "big") for k, _ in u["keys"]),
                                            "answer": None})
                        self.check_upload(rig, u, op)
                        if hist_wf:
                            self.check_upload_side(rig, u, op, confirmed_before)
                        for kid, val in u["keys"]:
                            i = int.from_bytes(kid, "big")
                            offered.setdefault(i, set()).add(val)
                            if (i, val) not in consumed_keys:
                                # (a consumed key offered again is reported where it happens - the open stale-list
                                # finding, or an unexplained violation - it does not become "available" again)
                                offered_live[(i, val)] = True
                            if len(offered[i]) > 1:
                                self.problems.append(("oracle:id_names_one_key", {
                                    "step": len(self.ops) - 1, "id": i,
                                    "what": "prekey id %d offered with %d different keys" % (i, len(offered[i]))},
                                    KNOWN_KEY if self.reuse_seen else None))
                    if e[0] == "consumed":
                        kid = op[1]
                        b = rig.handed[kid]
                        if [kid, e[1]] in before["unsent"]:
                            self.stale_consumed.add((kid, b["value"]))
                            self.stale_serial.add((kid, e[1]))
                        if (kid, b["value"]) in consumed_keys:
                            # "after which it cannot be used again": a second first message (another sender, other
                            # base key) naming a key that a first message already used up was accepted
                            self.problems.append(("oracle:consumed_key_used_again", {
                                "step": len(self.ops) - 1, "id": kid,
                                "what": "one-time prekey %d was consumed by a first message and a later first message "
                                        "naming the same key was accepted again" % kid}, None))
                        offered_live.pop((kid, b["value"]), None)
                        consumed_ids.add(kid)
                        consumed_keys.add((kid, b["value"]))
                        self.nontrivial.add("consume")
                    if e[0] in ("invalid-message", "wrong-plaintext", "no-bundle", "unexpected-stanza", "broadcast",
                                "store-error"):
                        self.problems.append(("oracle:consume", {"step": len(self.ops) - 1, "event": e[:2]},
                                              KNOWN_KEY if self.reuse_seen else None))
                if op[0] in ("result", "error") and op[1] in pending:
                    pending.remove(op[1])
                    for led in self.ledger:
                        if led["stanza"] == op[1]:
                            led["answer"] = op[0] + (" (callback raised)" if ["exn"] in [e[:1] for e in evs] else "")
                    if op[0] == "result" and ["exn"] not in [e[:1] for e in evs]:
                        for kid, val in rig.uploads[op[1]]["keys"]:
                            confirmed_keys.add((int.from_bytes(kid, "big"), val))
                        self.nontrivial.add("confirm")
                        self.check_confirmation(rig, op[1], before, after)
                # ---- property oracles on the implementation
                inv_serial = {v: k for k, v in rig.serial_of.items()}
                for rid, ser, sent in after["rows"]:
                    if sent and (rid, inv_serial[ser]) not in confirmed_keys:
                        self.problems.append(("oracle:sent_only_after_confirm", {
                            "step": len(self.ops) - 1, "id": rid,
                            "what": "prekey %d is flagged sent but no confirmed upload contained it" % rid},
                            KNOWN_KEY if self.reuse_seen else None))
                stored = set((r[0], inv_serial[r[1]]) for r in after["rows"])
                lost_now = sorted(i for (i, val) in offered_live if (i, val) not in stored)
                for (i, val) in offered_live:
                    if (i, val) not in stored:
                        self.problems.append(("oracle:offered_key_available", {
                            "step": len(self.ops) - 1, "id": i, "ids": lost_now[:20],
                            "offered_in": [l["stanza"] for l in self.ledger if i in l["ids"]],
                            "what": ("prekeys %s were offered to the server (stanza %s) and never consumed, but after "
                                     "the process was killed and restarted the store file does not hold them: a first "
                                     "message using one of them cannot be decrypted"
                                     % (lost_now[:20], [l["stanza"] for l in self.ledger if i in l["ids"]]))
                            if op[0] == "restart" else "an offered, unconsumed key is no longer in the store"},
                            KNOWN_KEY2 if (i, val) in self.stale_consumed else
                            KNOWN_KEY if self.reuse_seen else None))
                if op[0] == "authed" and not op[1] and not before["passive"] and connected and hist_wf \
                        and not conn_uploads and not was_authed:
                    # the first login of a connection, in the mode the layer set up itself (non-passive): it offers
                    # nothing, so nothing unconfirmed may be waiting in the store ("offered again at the next login")
                    waiting = sorted([r[0], r[1]] for r in before["rows"] if not r[2])
                    if waiting:
                        self.problems.append(("oracle:reoffer", {
                            "step": len(self.ops) - 1, "stored_unconfirmed": waiting, "offered": [],
                            "not_offered": [k[0] for k in waiting],
                            "what": "the layer itself set up a non-passive login although unconfirmed keys are stored: "
                                    "they are not offered at this login"},
                            KNOWN_KEY if self.reuse_seen else None))
                if op[0] == "authed" and op[1] and connected and hist_wf:
                    want = sorted([r[0], r[1]] for r in before["rows"] if not r[2])
                    got = sorted(k for e in cevs if e[0] == "upload" for k in e[3])
                    if want != got:
                        extra = [k for k in got if k not in want]
                        only_stale = extra and all(tuple(k) in self.stale_serial for k in extra) and \
                            all(k in got for k in want)
                        self.problems.append(("oracle:reoffer", {
                            "step": len(self.ops) - 1, "stored_unconfirmed": want, "offered": got,
                            "not_offered": [k[0] for k in want if k not in got],
                            "offered_but_not_pending": [k[0] for k in extra],
                            "what": "passive login did not offer exactly the stored unconfirmed keys"},
                            KNOWN_KEY2 if only_stale else KNOWN_KEY if self.reuse_seen else None))
                        if got and not extra:
                            # only part of the backlog was offered: go on, what matters is what the
                            # confirmation of this partial upload does to the keys left out
                            self.soft.add(len(self.problems) - 1)
                    if want:
                        self.nontrivial.add("reoffer")
                    # the same from the wire side, across restarts: whatever was offered in an upload that was never
                    # confirmed (and not consumed since) is offered again by this login
                    wire = set((int.from_bytes(kid, "big"), val) for e in evs if e[0] == "upload"
                               for kid, val in e[2]["keys"])
                    owed = sorted(i for (i, val) in offered_live
                                  if (i, val) not in confirmed_before and (i, val) not in wire)
                    if owed:
                        self.problems.append(("oracle:unconfirmed_reoffered", {
                            "step": len(self.ops) - 1, "ids": owed[:20],
                            "offered_in": sorted(set(l["stanza"] for l in self.ledger
                                                     if set(l["ids"]) & set(owed) and l["answer"] != "result")),
                            "what": "prekeys %s were offered in an upload that was never confirmed, but this passive "
                                    "login does not offer them again" % owed[:20]},
                            KNOWN_KEY if self.reuse_seen else None))
                if op[0] == "authed" and hist_wf:
                    again = sorted(int.from_bytes(kid, "big") for e in evs if e[0] == "upload"
                                   for kid, val in e[2]["keys"] if (int.from_bytes(kid, "big"), val) in confirmed_before)
                    if again:
                        self.problems.append(("oracle:confirmed_not_reoffered", {
                            "step": len(self.ops) - 1, "ids": again,
                            "what": "keys of an already confirmed upload were offered again at a login"},
                            KNOWN_KEY if self.reuse_seen else None))
                if any(k != KNOWN_KEY2 and n not in self.soft for n, (_, _, k) in enumerate(self.problems)):
                    break      # (problems explained by the stale-list finding do not end the history)
            # report a problem that no listed finding explains before one that a finding does, and a
            # partial offer after what followed from it
            order = sorted(range(len(self.problems)),
                           key=lambda n: (self.problems[n][2] is not None, n in self.soft, n))
            self.problems = [self.problems[n] for n in order]
        finally:
            rig.close()
        return self

    def resolve(self, sop, rig, before, pending, conn_uploads):
        k = sop["op"]
        if k in ("connect", "askkeys", "disconnected", "restart"):
            return (k,)
        if k == "authed":
            from yowsup.layers.auth.layer_authentication import YowAuthenticationProtocolLayer as A
            p = sop.get("passive")
            if p is None:
                p = bool(rig.stack.props.get(A.PROP_PASSIVE, False))
            return ("authed", bool(p))
        if k in ("result", "error"):
            if "iq" in sop:
                return (k, sop["iq"])
            cands = [i for i in pending if i in conn_uploads] if sop.get("wf", True) else list(pending)
            if not cands:
                return (k, 9999) if sop.get("unknown") else None
            return (k, cands[sop.get("pick", 0) % len(cands)])
        if k == "consume":
            if "id" in sop:
                src = sop.get("source", "directory")
                if sop["id"] not in (rig.directory if src == "directory" else rig.handed):
                    return None
                return ("consume", sop["id"], src)
            if sop.get("source") == "replay":
                stored = set(r[0] for r in before["rows"])
                cands = sorted(i for i in rig.handed if i not in stored)
                if not cands:
                    return None
                return ("consume", cands[sop.get("pick", 0) % len(cands)], "replay")
            cands = sorted(rig.directory)
            if not cands:
                return None
            pick = sop.get("pick", 0)
            kid = cands[-1] if pick == "max" else cands[pick % len(cands)]
            return ("consume", kid, "directory")
        return None

    def check_upload_side(self, rig, u, op, confirmed_before):
        """the upload side of the property, on the stanza as the server sees it and the store's flags at the
        moment it was sent (server-realistic histories): an upload - at a login or answering a key-count
        request - offers only keys that are stored and still pending, and never a key that an already
        confirmed upload contained (a carried key that is flagged sent without such an upload is the
        sent-only-after-confirm clause)"""
        inv_serial = {v: k for k, v in rig.serial_of.items()}
        flags = {(r[0], inv_serial[r[1]]): r[2] for r in u["rows_at_upload"]}
        not_pending, again = [], []
        for kid, val in u["keys"]:
            i = int.from_bytes(kid, "big")
            if (i, val) in confirmed_before:
                again.append(i)
            elif flags.get((i, val)) is True:
                not_pending.append(i)
        step = len(self.ops) - 1
        if again:
            stale = all((i, v) in self.stale_consumed for i, v in
                        ((int.from_bytes(k, "big"), v) for k, v in u["keys"]) if i in again)
            self.problems.append(("oracle:confirmed_not_reoffered", {
                "step": step, "stanza": u["index"], "sent_at": op[0], "ids": sorted(again),
                "confirmed_by": [l["stanza"] for l in self.ledger
                                 if l["answer"] == "result" and set(l["ids"]) & set(again)],
                "what": "upload stanza #%d (sent at %s) offers prekeys %s again although an upload containing "
                        "them had already been confirmed" % (u["index"], op[0], sorted(again))},
                KNOWN_KEY2 if stale else KNOWN_KEY if self.reuse_seen else None))
        if not_pending:
            self.problems.append(("oracle:sent_only_after_confirm", {
                "step": step, "stanza": u["index"], "sent_at": op[0], "ids": sorted(not_pending),
                "what": "right after upload stanza #%d was sent the store flags prekeys %s it carries as sent "
                        "although no confirmed upload contained them" % (u["index"], sorted(not_pending))},
                KNOWN_KEY if self.reuse_seen else None))

    def check_confirmation(self, rig, idx, before, after):
        """an iq result for upload stanza #idx: exactly the keys that stanza carried stop being pending -
        none that was not on the wire, all that were (and are still stored)"""
        ids = set(int.from_bytes(k, "big") for k, _ in rig.uploads[idx]["keys"])
        was_pending = set(r[0] for r in before["rows"] if not r[2])
        now_sent = set(r[0] for r in after["rows"] if r[2])
        flagged = sorted(i for i in was_pending & now_sent if i not in ids)
        still = sorted(r[0] for r in after["rows"] if r[0] in ids and not r[2])
        step = len(self.ops) - 1
        if flagged:
            self.problems.append(("oracle:sent_only_after_confirm", {
                "step": step, "stanza": idx, "stanza_ids": sorted(ids), "ids": flagged,
                "what": "the confirmation of upload stanza #%d, which carried prekeys %s, marked prekeys %s as "
                        "sent: they were never on the wire in a confirmed upload and will not be offered again"
                        % (idx, sorted(ids), flagged)},
                KNOWN_KEY if self.reuse_seen else None))
        if still:
            self.problems.append(("oracle:confirmed_not_pending", {
                "step": step, "stanza": idx, "ids": still,
                "what": "upload stanza #%d was confirmed but prekeys %s it carried still count as pending"
                        % (idx, still)},
                KNOWN_KEY if self.reuse_seen else None))

    def check_upload(self, rig, u, op):
        from axolotl.ecc.curve import Curve
        from axolotl.ecc.djbec import DjbECPublicKey
        bad, stale = [], []
        m = rig.manager
        if u["attrs"] != {"xmlns": "encrypt", "type": "set", "to": SERVER}:
            bad.append("iq attributes %r" % (u["attrs"],))
        ident = m.identity.getPublicKey().serialize()[1:]
        if u["identity"] != ident or len(ident) != 32:
            bad.append("identity key is not the account's")
        if int.from_bytes(u["registration"], "big") != m.registration_id or len(u["registration"]) < 3:
            bad.append("registration id")
        if u["type"] != b"\x05":
            bad.append("type")
        sid, sval, ssig = u["skey"]
        if len(sid) != 3 or len(sval) != 32 or len(ssig) != 64:
            bad.append("signed prekey field sizes %d/%d/%d" % (len(sid), len(sval), len(ssig)))
        else:
            try:
                ok = Curve.verifySignature(m.identity.getPublicKey().getPublicKey(), b"\x05" + sval, ssig)
            except Exception as e:
                ok = False
            if not ok:
                bad.append("signed prekey signature does not verify under the identity key")
            try:
                rec = rig.store.loadSignedPreKey(int.from_bytes(sid, "big"))
                if rec.getKeyPair().getPublicKey().serialize()[1:] != sval:
                    bad.append("signed prekey differs from the stored one")
            except Exception:
                bad.append("signed prekey id is not in the store")
        if not u["keys"]:
            bad.append("no one-time prekeys")
        for kid, val in u["keys"]:
            if len(kid) != 3 or len(val) != 32:
                bad.append("prekey field sizes %d/%d" % (len(kid), len(val)))
                continue
            try:
                rec = rig.store.loadPreKey(int.from_bytes(kid, "big"))
                if rec.getKeyPair().getPublicKey().serialize()[1:] != val:
                    bad.append("prekey %d: offered key differs from the stored key" % int.from_bytes(kid, "big"))
            except Exception:
                bad.append("prekey %d offered but not stored" % int.from_bytes(kid, "big"))
                if (int.from_bytes(kid, "big"), val) in self.stale_consumed:
                    stale.append(bad[-1])
        if bad:
            self.problems.append(("oracle:upload_wellformed", {"step": len(self.ops) - 1, "problems": bad[:5]},
                                  KNOWN_KEY2 if len(stale) == len(bad) else
                                  KNOWN_KEY if self.reuse_seen and all("prekey" in b and "signed" not in b for b in bad) else None))


def mismatch(model, batch, hr):
    """where the implementation leaves the model: an event / state difference, or - the model commits per store
    call, so after every step the file holds what the connection sees - a store call that left its writes in an
    open transaction"""
    d = compare(model, batch, hr)
    if d is None and hr.tie_breaks:
        d = {"durable_state": hr.tie_breaks[0]}
    return d


def compare(model, batch, hr):
    res = model.call("run_hist", [batch, [model_op(o) for o in hr.ops]])
    if isinstance(res, tuple):
        return {"error": str(res)}
    for i, ((op, cevs, st), m) in enumerate(zip(hr.steps, res)):
        mevs = canon_model_events(m[0])
        ievs = [list(e) for e in cevs]
        for a in mevs:
            if a[0] == "upload":
                a[4] = None
        if mevs != ievs:
            return {"step": i, "op": list(op), "model_events": mevs, "impl_events": ievs}
        mst = {"rows": [[r[0], r[1], bool(r[2])] for r in m[1][0]], "signed": list(m[1][1]),
               "unsent": [list(p) for p in m[1][2]], "passive": bool(m[1][3])}
        if mst != st:
            return {"step": i, "op": list(op), "model_state": mst, "impl_state": st}
    return None


# ---------------------------------------------------------------- generators
def gen_script(rng):
    """mostly server-realistic histories, with a share of ill-formed steps"""
    s = []
    connected = authed = False
    n = rng.choice([6, 10, 16, 24])
    for _ in range(n):
        x = rng.random()
        if rng.random() < .06:   # ill-formed step
            s.append(rng.choice([
                {"op": "authed", "passive": rng.random() < .5, "wf": False},
                {"op": "askkeys", "wf": False}, {"op": "result", "wf": False, "pick": rng.randint(0, 3)},
                {"op": "error", "wf": False, "pick": rng.randint(0, 3)}, {"op": "connect", "wf": False},
                {"op": "disconnected", "wf": False}, {"op": "result", "unknown": True, "wf": False}]))
            if s[-1]["op"] == "connect":
                connected, authed = True, False
            if s[-1]["op"] == "disconnected":
                connected = authed = False
            continue
        if not connected:
            if x < .12:
                s.append({"op": "restart"})
            else:
                s.append({"op": "connect"})
                connected, authed = True, False
        elif not authed:
            if x < .12:
                s.append({"op": "disconnected"})
                connected = False
            elif x < .26:
                # the login completes NON-passive although keys may be waiting (in the property's
                # alphabet: "authenticated(passive or not)"); _unsent_prekeys stays in memory
                s.append({"op": "authed", "passive": False})
                authed = True
            else:
                s.append({"op": "authed"})
                authed = True
        else:
            if x < .22:
                s.append({"op": "result", "pick": rng.randint(0, 2)})
            elif x < .30:
                s.append({"op": "error", "pick": rng.randint(0, 2)})
            elif x < .50:
                s.append({"op": "consume", "pick": rng.choice([0, 1, 2, "max", "max"])})
            elif x < .58:
                s.append({"op": "consume", "source": "replay", "pick": rng.randint(0, 3)})
            elif x < .74:
                s.append({"op": "askkeys"})
            elif x < .94:
                s.append({"op": "disconnected"})
                connected = authed = False
            else:
                s.append({"op": "restart"})
                connected = authed = False
    return s


def systematic():
    C, A, D, R = {"op": "connect"}, {"op": "authed"}, {"op": "disconnected"}, {"op": "restart"}
    res, err, ask = {"op": "result"}, {"op": "error"}, {"op": "askkeys"}
    NP = {"op": "authed", "passive": False}
    return [
        # normal first login: generate, passive login, upload, confirm, reboot, active login
        (5, [C, A, res, D, C, A, res, D, C, A]),
        # confirmation lost: keys must be offered again
        (5, [C, A, D, C, A, res, D, C, A]),
        # restart between upload and confirmation
        (4, [C, A, R, C, A, res, D, C, A, res]),
        # error reply
        (3, [C, A, err, D, C, A, res]),
        # server asks for keys; consume then double use
        (5, [C, A, res, D, C, A, res, D, C, A, {"op": "consume", "pick": 0}, {"op": "consume", "source": "replay"},
             ask, res, {"op": "consume", "pick": 1}]),
        # design-time finding: offer 1..5, consume 5, refill re-issues id 5
        (5, [C, A, {"op": "consume", "pick": "max"}, ask]),
        # connect twice without login (duplicates in _unsent_prekeys)
        (3, [C, D, C, D, C, A, res]),
        (6, [C, A, res, D, C, A, ask, ask, res, res, D, R, C, A]),
        # non-passive login while keys wait, key request confirmed, a key consumed, then a second
        # login on the SAME layer instance (stale _unsent_prekeys): nothing confirmed or consumed
        # may be offered again
        (4, [C, NP, ask, res, {"op": "consume", "pick": 0}, D, C, A, res]),
        (3, [C, NP, ask, res, ask, res, {"op": "consume", "pick": 1}, {"op": "consume", "pick": 0}, D, C, D, C, A]),
        (5, [C, NP, D, C, NP, ask, {"op": "consume", "pick": 2}, res, D, C, A, res, D, C, A]),
        # two confirmations lost in a row, a new generation before each flush (backlog > one batch)
        (3, [C, A, D, C, A, D, C, A, res, D, C, A, res]),
        # the login flush is confirmed, the key-count batch is not: it must be offered at the next login
        (4, [C, A, res, D, C, A, ask, D, C, A, res, D, C, A]),
        # non-passive login with keys waiting, key-count request whose confirmation is lost
        (3, [C, NP, ask, D, C, A, res, D, C, A]),
        # non-passive login, two confirmed key-count requests, then two passive logins
        (4, [C, NP, ask, res, ask, res, D, C, A, res, D, C, A, res]),
        # a key-count request answered with a second upload while the login upload is still unanswered; only the
        # login upload is confirmed (reboot): the other batch must be offered at the very next login
        (4, [C, A, ask, {"op": "result", "pick": 0}, D, C, A, res, D, C, A]),
        (4, [C, A, ask, {"op": "result", "pick": 0}, D, C, NP, D, C, A, res]),
        (3, [C, A, ask, ask, {"op": "result", "pick": 0}, D, C, A, {"op": "result", "pick": 0}, D, C, A]),
        (4, [C, A, ask, {"op": "result", "pick": 0}, D, C, D, C, A, res]),
        # the process is killed (restart = what the database file holds):
        #  ... while the upload of a later generation is on the wire, before its result
        (4, [C, A, res, D, C, A, R, C, A, res, D, C, A]),
        #  ... while the upload answering a key-count request is on the wire
        (5, [C, A, res, D, C, A, ask, R, C, A, res, D, C, A]),
        #  ... right after keys were generated, before anything else commits
        (3, [C, R, C, A, res, D, C, A]),
        (6, [C, A, res, D, C, A, res, D, C, R, C, A, res]),
        #  ... with a generation batch above 100 (104: a chunked writer would have committed 100 of them)
        (104, [C, A, res, D, C, A, ask, R, C, A, res, D, C, A]),
    ]


def kill_family(tier):
    """the process is killed at a write boundary INSIDE an operation that generates keys - the key-count request
    (askkeys) once the store holds >= THRESHOLD_REGEN keys, the below-threshold refill of a connect - after 1, k/2
    and k-1 of the k inserts, before the last insert's commit, before the first write and right after the signed
    prekey; then the new process logs in passively, the partial batch is confirmed, and two further generations
    follow (key-count request, and the threshold refill where the store is small enough)"""
    C, A, D = {"op": "connect"}, {"op": "authed"}, {"op": "disconnected"}
    res, ask = {"op": "result"}, {"op": "askkeys"}
    use = {"op": "consume", "pick": 0}
    out = []
    for k in (3, 4, 5, 6, 104):
        specs = [["pk_insert", 2], ["pk_insert", k // 2 + 1], ["pk_insert", k], ["pk_commit", k]]
        rounds = 1 if k >= 10 else -(-10 // k)          # logins until the store holds >= 10 keys
        warm = [C, A, res, D] * rounds
        after = [C, A, res, D, C, A, ask, res, use, ask, res, D, C, A, res]
        for spec in specs + [["first"], ["pk_insert", 1]]:
            out.append((k, warm + [C, A, dict(ask, kill=spec)] + after))
        if k < 10:
            for spec in specs:
                out.append((k, [C, A, res, D, dict(C, kill=spec)] + after))
        if tier == "quick" and k == 104:
            out = out[:-3]                                # keep three of the six large-batch histories in quick
    if tier != "quick":
        out.append((812, [C, A, res, D, C, A, dict(ask, kill=["pk_insert", 407])] +
                    [C, A, res, D, C, A, ask, res, D, C, A]))
    return out


def gen_cases(ctx):
    cases = []
    cdir = os.path.join(os.path.dirname(os.path.dirname(os.path.dirname(os.path.abspath(__file__)))), "corpus", "C14")
    if os.path.isdir(cdir):
        for fn in sorted(os.listdir(cdir)):
            if fn.endswith(".json"):
                d = json.load(open(os.path.join(cdir, fn)))
                cases.append(("corpus", d["batch"], d["script"]))
    for b, s in systematic():
        cases.append(("systematic", b, s))
    for b, sc in kill_family(ctx.tier):
        cases.append(("kill-inside", b, sc))
    if ctx.tier != "quick":
        C, A, D, R = {"op": "connect"}, {"op": "authed"}, {"op": "disconnected"}, {"op": "restart"}
        res, ask = {"op": "result"}, {"op": "askkeys"}
        # the library's real generation batch, and one between
        cases.append(("systematic", 812, [C, A, res, D, C, A, ask, R, C, A, res, D, C, A]))
        cases.append(("systematic", 250, [C, A, R, C, A, res, D, C, A, ask, R, C, A, res]))
    n = 220 if ctx.tier == "quick" else 5000
    for _ in range(n):
        cases.append(("random", ctx.rng.choice([3, 4, 5, 6]), gen_script(ctx.rng)))
    return cases


def resolved_script(ops, op_wf=None):
    """a script that replays exactly the resolved ops (each keeps the well-formedness flag of the
    script step it came from, so that the same oracles apply when it is replayed)"""
    out = []
    for n, o in enumerate(ops):
        if o[0] == "kill":
            d = {"op": o[1], "kill": list(o[2])}
        elif o[0] == "authed":
            d = {"op": "authed", "passive": o[1]}
        elif o[0] in ("result", "error"):
            d = {"op": o[0], "iq": o[1]}
        elif o[0] == "consume":
            d = {"op": "consume", "id": o[1], "source": o[2]}
        else:
            d = {"op": o[0]}
        if op_wf is not None and not op_wf[n]:
            d["wf"] = False
        out.append(d)
    return out


def realistic(script):
    """does a resolved script respect the order of events a server / stack produces (one login per
    connection, requests / replies / messages only on an authenticated connection)?"""
    connected = authed = False
    for o in script:
        k = o["op"]
        if k == "connect":
            if connected:
                return False
            connected, authed = True, False
        elif k == "authed":
            if not connected or authed:
                return False
            authed = True
        elif k in ("askkeys", "result", "error", "consume"):
            if not authed:
                return False
        elif k == "disconnected":
            if not connected:
                return False
            connected = authed = False
        elif k == "restart":
            connected = authed = False
        if o.get("kill") and k in ("connect", "askkeys"):
            connected = authed = False      # the process dies inside the operation
    return True


def shrink(ctx, batch, script, pred, budget=40):
    cur = list(script)
    changed = True
    while changed and budget > 0:
        changed = False
        for i in range(len(cur) - 1, -1, -1):
            cand = cur[:i] + cur[i + 1:]
            budget -= 1
            try:
                if pred(cand):
                    cur, changed = cand, True
            except Exception:
                pass
            if budget <= 0:
                break
    return cur


def adjust_id_cases(ctx, model):
    """adjustId of the real layer vs the model, boundaries of every comparison constant"""
    from yowsup.layers.axolotl.layer_control import AxolotlControlLayer
    l = AxolotlControlLayer()
    vals = [0, 1, 15, 16, 255, 256, 4095, 4096, 65535, 65536, 1048575, 1048576, 16777214, 16777215, 16777216,
            2 ** 32 - 1, 2 ** 32] + [ctx.rng.randint(0, 2 ** 24) for _ in range(60)]
    bad = 0
    for v in vals:
        real = l.adjustId(v)
        if v < 2 ** 24 and real != v.to_bytes(3, "big"):
            ctx.violation("oracle:adjust_id", {"id": v, "observed": real.hex(), "expected": v.to_bytes(3, "big").hex()})
        if model is not None:
            m = model.call("run_adjust_id", v)
            if m != real:
                bad += 1
                ctx.violation("correspondence:C14.adjust_id", {"id": v, "model": repr(m), "impl": real.hex()},
                              found_input=False)
    return len(vals), bad


def violation_case(batch, script, detail, origin, hr, **extra):
    """what a replay file says: the history, what failed, every upload stanza (which prekey ids, where it was
    sent, how it was answered) and the store's rows with their sent flag at the end"""
    case = {"batch": batch, "script": script, "detail": detail, "origin": origin,
            "server_realistic_history": realistic(script),
            "oracles_failing": sorted(set(n for n, _, k in hr.problems if k is None)),
            "uploads": hr.ledger,
            "store_at_end": [[r[0], "sent" if r[2] else "pending"] for r in hr.steps[-1][2]["rows"]]
            if hr.steps else []}
    case.update(extra)
    return case


def end_state(script):
    connected = authed = False
    for o in script:
        k = o["op"]
        if k == "connect":
            connected, authed = True, False
        elif k == "authed":
            authed = connected
        elif k in ("disconnected", "restart"):
            connected = authed = False
        if o.get("kill") and k in ("connect", "askkeys"):
            connected = authed = False
    return connected, authed


def directed_search(ctx, batch, script):
    """the implementation left the model on `script` without the property failing yet: continue the history
    in the ways a server can (confirm, lose the confirmation, consume, re-login, restart, ask for keys), with
    each login of the history as it is and reported NON-passive, until a property oracle fails"""
    C, A, D, R = {"op": "connect"}, {"op": "authed"}, {"op": "disconnected"}, {"op": "restart"}
    res, ask, use = {"op": "result"}, {"op": "askkeys"}, {"op": "consume", "pick": 0}
    NP = {"op": "authed", "passive": False}
    variants = [list(script)]
    for i, o in enumerate(script):
        if o["op"] == "authed" and o.get("passive", True):
            variants.append(script[:i] + [NP] + script[i + 1:])
    tails = [[res, res, use, D, C, A, res, D, C, A, res],
             [res, D, C, A, res, D, C, A, res],
             [D, C, A, res, D, C, A, res],
             [ask, res, res, use, D, C, A, res, D, C, A],
             [D, R, C, A, res, D, C, A, res],
             [res, ask, D, C, A, res, res, D, C, A],
             # the process is killed while an upload is on the wire, unanswered
             [res, D, C, A, R, C, A, res, D, C, A],
             [R, C, A, res, D, C, A],
             [res, ask, R, C, A, res, D, C, A]]
    for v in variants:
        connected, authed = end_state(v)
        for login in (A, NP):
            pre = [] if authed else ([login] if connected else [C, login])
            for t in tails:
                cand = v + pre + t
                hr = HistoryRun(ctx, batch, cand, "d").run()
                for name, detail, key in hr.problems:
                    if key is None:
                        return resolved_script(hr.ops, hr.op_wf), name, detail, hr
            if authed:
                break
    return None


def run(ctx):
    ctx.prove()
    exe = ctx.build_model("C14")
    model = modelrun.Model(exe) if exe else None
    cases = gen_cases(ctx)
    evaluations = steps = corr_bad = oracle_hits = 0
    distinct = set()
    opkinds = {}
    nontriv = {}
    deferred = []
    for ci, (origin, batch, script) in enumerate(cases):
        hr = HistoryRun(ctx, batch, script, "h").run()
        evaluations += 1
        steps += len(hr.ops)
        for o in hr.ops:
            opkinds[o[0]] = opkinds.get(o[0], 0) + 1
        for k in hr.nontrivial:
            nontriv[k] = nontriv.get(k, 0) + 1
        if hr.nontrivial:
            distinct.add(hashlib.sha1(json.dumps([batch, hr.ops]).encode()).hexdigest())
        found = False
        for name, detail, key in hr.problems:
            found = True
            rs = resolved_script(hr.ops, hr.op_wf)

            keep_real = realistic(rs)

            def pred(cand, _n=name, _k=key, _real=keep_real):
                if _real and not realistic(cand):
                    return False     # a shrunk history must stay one a real server can produce
                r = HistoryRun(ctx, batch, cand, "k").run()
                return any(n == _n and k == _k for n, _, k in r.problems)
            small = shrink(ctx, batch, rs, pred) if ctx.known_match(key) is None or key is None else rs
            if small is not rs:
                r3 = HistoryRun(ctx, batch, small, "k").run()
                detail = next((d for n, d, k in r3.problems if n == name and k == key), detail)
            case = violation_case(batch, small, detail, origin, r3 if small is not rs else hr)
            case["oracles_failing"] = sorted(set(n for n, _, k in hr.problems if k == key))
            ctx.violation(name, case, key=key)
            break
        if model is not None:
            diff = mismatch(model, batch, hr)
            if diff is not None:
                corr_bad += 1
            # a broken correspondence is reported (twice at most) but never ends the search: the
            # implementation keeps being driven alone through every remaining history and the
            # implementation-side oracles decide whether a concrete failing history exists
            if diff is not None and corr_bad <= 2:
                deferred.append((origin, batch, resolved_script(hr.ops, hr.op_wf), diff))
        if found and any(k is None for _, _, k in hr.problems):
            oracle_hits += 1
        if ci % 53 == 0:
            ctx.add_sample({"origin": origin, "batch": batch, "ops": [list(o) for o in hr.ops][:14]})
        if oracle_hits >= 3:
            break
    # model/code mismatches are reported after the failing histories of the property itself; for each one a
    # directed search (the mismatching history continued in server-realistic ways, logins passive or not)
    # looks for a history on which the property fails on the implementation
    for origin, batch, rs, diff in deferred:
        keep_real = realistic(rs)

        def pred2(cand, _real=keep_real):
            if _real and not realistic(cand):
                return False
            r = HistoryRun(ctx, batch, cand, "k").run()
            return mismatch(model, batch, r) is not None
        small = shrink(ctx, batch, rs, pred2)
        r2 = HistoryRun(ctx, batch, small, "k").run()
        d2 = mismatch(model, batch, r2) or diff
        hit = None if any(k is None for _, _, k in r2.problems) else directed_search(ctx, batch, small)
        if hit is not None:
            script, name, detail, hr3 = hit

            def pred3(cand, _n=name):
                if not realistic(cand):
                    return False
                r = HistoryRun(ctx, batch, cand, "k").run()
                return any(n == _n and k is None for n, _, k in r.problems)
            small3 = shrink(ctx, batch, script, pred3)
            r3 = HistoryRun(ctx, batch, small3, "k").run()
            detail = next((d for n, d, k in r3.problems if n == name and k is None), detail)
            ctx.violation(name, violation_case(batch, small3, detail, origin + "+directed-search", r3,
                                               model_mismatch={"script": small, "detail": d2}))
        elif any(k is None for _, _, k in r2.problems):
            name, detail = next((n, d) for n, d, k in r2.problems if k is None)
            ctx.violation(name, violation_case(batch, small, detail, origin + "+model-mismatch", r2,
                                               model_mismatch={"detail": d2}))
        else:
            ctx.violation("correspondence:C14.history",
                          {"batch": batch, "script": small, "detail": d2, "origin": origin,
                           "uploads": r2.ledger}, found_input=False)
    n_adj, _ = adjust_id_cases(ctx, model)
    if model is not None:
        model.close()
        ctx.ties["correspondence"] = "ok" if corr_bad == 0 else "broken (%d histories)" % corr_bad
    ctx.coverage["histories_with_model_mismatch"] = corr_bad
    if not ctx.proof_ok and not ctx.violations:
        ctx.tie_broken_without_input("theorem:" + ctx.failing_theorem(), ctx.ties.get("proof"))
    if model is None and not ctx.violations:
        ctx.tie_broken_without_input("model-build:C14", ctx.ties.get("model-build:C14"))
    ctx.coverage["evaluations"] = evaluations + n_adj
    ctx.coverage["history_steps"] = steps
    ctx.coverage["distinct_nontrivial"] = len(distinct)
    ctx.coverage["op_kinds"] = opkinds
    ctx.coverage["histories_reaching"] = nontriv
    return ctx.finish(
        rule="a case = one history (batch size 3-6, 6-24 events) driven through the real control layer, manager, "
             "SQLite store and real Signal peers; corpus, 15 systematic histories (non-passive login with keys waiting + key-count request with a confirmed / lost confirmation, two lost confirmations with a generation before each flush, non-passive login + confirmed key request + consume + re-login on the same layer, first login, lost confirmation, "
             "restart before confirmation, error reply, key request, consume + double use, duplicate connects), "
             "then seeded random histories (about 6% ill-formed steps); after every step events and state are "
             "compared with the model; non-trivial = distinct resolved histories that reached a confirmation, a "
             "re-offer of unconfirmed keys or a consumed key",
        assumptions_text=ASSUME)


def replay(ctx, data):
    case = data["case"]
    if "script" not in case:
        print("nothing to replay on the implementation:", json.dumps(case)[:600])
        return 1
    hr = HistoryRun(ctx, case["batch"], case["script"], "r").run()
    for i, (op, evs, st) in enumerate(hr.steps):
        print("step %d %s -> %s | rows %s unsent %s passive %s" % (
            i, list(op), [e[:4] for e in evs], st["rows"], st["unsent"], st["passive"]))
    for n, d, k in hr.problems:
        print("observed:", n, json.dumps(d, default=str)[:600], "(known finding %s)" % k if k else "")
    for led in hr.ledger:
        print("upload stanza #%d: sent at step %d (%s), prekey ids %s, answer: %s"
              % (led["stanza"], led["step"], led["sent_at"], led["ids"], led["answer"]))
    if hr.steps:
        print("store at the end:", [[r[0], "sent" if r[2] else "pending"] for r in hr.steps[-1][2]["rows"]])
    print("expected: ids name one key; sent flag only after a confirmed upload that carried the key, and always "
          "after one; no upload offers a key of an already confirmed upload; passive login offers exactly the "
          "stored unconfirmed keys; offered keys stay available until consumed; consumed keys cannot be used again")
    for t in hr.tie_breaks[:3]:
        print("durable state:", json.dumps(t, default=str)[:400])
    if any(k is None or ctx.known_match(k) is None for _, _, k in hr.problems):
        print("VIOLATION property=C14 replay=(replayed)")
        return 1
    return 0
