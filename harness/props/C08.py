"""C08 -- request/response correlation.
Model: coq/C08 (+ coq/Gen/C08Table.v regenerated from the layers' source by
harness/translators/c08_table.py); implementation: the real axolotl + protocol-layer group +
YowInterfaceLayer subclass between recorders (harness/c08rig.py)."""
import os, json, glob, itertools
from .. import modelrun, env
from ..env import VERIF
from ..translators import c08_table

ASSUME = [
    "modelled: YowProtocolLayer._sendIq/processIqRegistry/receive, YowInterfaceLayer._sendIq/processIqRegistry/"
    "receive, YowParallelLayer.receive/send, the control / send||receive / protocol-group hand-over of an "
    "incoming iq, the iq receive handlers of the iq layer (server ping) and contacts layer (sync result), "
    "ProtocolEntity._generateId as a counter; default module selection (groups, media, privacy, profiles on)",
    "tie 1 (translator, fail-closed ast): per-kind routing table (which layer registers, with which callbacks; "
    "forward-only kinds), callbacks are plain upward forwarders, callbacks of the three library-internal "
    "_sendIq sites, reply-type test of both processIqRegistry functions -> coq/Gen/C08Table.v, theorems re-checked",
    "tie 2 (correspondence): extracted model vs real stack on the same histories: per-op event sequence "
    "(sent, interface arrivals, application/library callbacks with request identity, pongs, ordinary entities "
    "above the interface), final registries of all 12 layers, id counter",
    "modelled not verified: python-axolotl / key material (FakeManager stands in for AxolotlManager; C08 needs "
    "no crypto), reply entity parsing (well-formed replies of the request's kind only: a reply shaped for "
    "another kind is outside the domain), GIL-level atomicity of __ID_GEN += 1 (single-threaded histories only)",
    "the keep-alive ping thread is not started; its request path (YowIqProtocolLayer.sendIq(ping)) is driven directly",
    "deliveries from inside a send (reply read by the reader thread while the sender is still inside toLower): "
    "modelled as the `sync` list of a request op (all theorems quantify over them); driven on the real stack by a "
    "bottom recorder that hands the scripted stanzas upward from inside its send() -- the deterministic single-"
    "thread equivalent.  Not driven on the real stack (model/theorems only): nested deliveries whose processing "
    "sends down again (a retry issued by the callback, the pong to a server ping, the group-info success closure "
    "sending the message) -- YowLayer.toLower holds a non-reentrant lock, a second thread would simply wait there "
    "until the outer send has returned",
    "tie 1 also reads the order `iqRegistry[id] = ...` before `toLower(...)` of both _sendIq functions "
    "(register_before_send; behavioural probe with a registry-inspecting lower layer when the source shape is not "
    "recognised)",
]

A, L, T, S = None, None, None, None   # filled from the rig module after env.setup()


def _rig():
    from .. import c08rig
    return c08rig


# ---------------------------------------------------------------- encoding for the model

def enc_sync(R, sync):
    return [[d[0], R.typ_code(d[1]), R.SHAPES.index(d[2]), enc_content(R, d[3] if len(d) > 3 else None)]
            for d in sync]


def enc_content(R, content):
    """((attr ...) (child ...)) with byte strings; the model carries it and never looks at it"""
    if not content:
        return [[], []]
    top = [R.SYNC_CONTENTS[content][:2]] if content in R.SYNC_CONTENTS else R.CONTENTS[content]
    return [[], [[tag.encode(), [[k.encode(), v.encode()] for k, v in sorted(attrs.items())]]
                 for tag, attrs in top]]


def enc_op(R, op):
    if op[0] == "app":
        rt = [int(x) for x in op[4:7]] + [0, 0, 0]
        return [0, R.AKINDS.index(op[1]), int(bool(op[2])), int(bool(op[3])),
                int(bool(rt[0])), int(bool(rt[1])), rt[2], enc_sync(R, R.op_sync(op))]
    if op[0] == "lib":
        return [1, R.LKINDS.index(op[1]), enc_sync(R, R.op_sync(op))]
    if op[0] == "dlv":
        return [2, op[1], R.typ_code(op[2]), R.SHAPES.index(op[3]), enc_content(R, op[4] if len(op) > 4 else None)]
    return [3, op[2]]


def expand(R, history):
    """the sequential reading: [(position of the op in the history, op or nested delivery as a dlv op)]"""
    out = []
    for p, op in enumerate(history):
        out.append((p, op))
        for d in R.op_sync(op):
            out.append((p, ["dlv"] + list(d)))
    return out


def after_request(R, history, p):
    """what follows request op p in the sequential reading (its own nested deliveries first)"""
    ex = expand(R, history)
    i = [j for j, (q, o) in enumerate(ex) if q == p][0]
    return ex[i + 1:]


def has_sync(R, history):
    return any(R.op_sync(o) for o in history)


def dec_events(R, evs):
    out = []
    for e in evs:
        c = e[0]
        if c == 0: out.append(["issued", e[1]])
        elif c == 1: out.append(["sent", e[1]])
        elif c == 2: out.append(["iface", e[1], (R.ITYPES + ["other"])[e[2]]])
        elif c == 3:
            w = "success" if e[2] == 0 else "error"
            out.append(["appcb", e[1], w, e[3][0], "result" if e[2] == 0 else "error"])
        elif c == 4: out.append(["top", e[1]])
        elif c == 5:
            out.append(["libcb", R.LKINDS[e[2]], "success" if e[3] == 0 else "error", e[4][0]])
        elif c == 6: out.append(["pong", e[1]])
        else: out.append(["?", e])
    return out


def dec_model(R, res):
    if isinstance(res, tuple):
        return {"error": res}
    evs, st = res
    regs = {name: sorted(ids) for name, ids in zip(R.LAYERS, st[2])}
    regs["app"] = sorted(st[1])
    return {"events": [dec_events(R, e) for e in evs], "regs": regs, "next": st[0]}


CB = ("appcb", "libcb", "exception")


def canon_impl(history, events):
    """for non-iq deliveries only the callback-related events are in the model's vocabulary"""
    out = []
    for op, ev in zip(history, events):
        out.append([e for e in ev if e[0] in CB] if op[0] == "oth" else ev)
    return out


def run_impl(R, history, reader_thread=False):
    rig = R.Rig(reader_thread=reader_thread)
    try:
        events = rig.run(history)
    except Exception as e:   # harness-level failure (a request could not even be issued)
        return {"error": "%s: %s" % (type(e).__name__, str(e)[:200])}
    regs = rig.registries()
    nxt = R.id_counter_probe() - rig.base
    return {"events": canon_impl(history, events), "regs": regs, "next": nxt}


# ---------------------------------------------------------------- property oracle (implementation only)

# callbacks the library itself registers with its internal requests (None = none registered,
# then the property demands nothing)
LIB_EXPECT = {"fetch_ctl": (True, True), "fetch_send": (True, True), "fetch_recv": (True, True),
              "keyupload": (True, True), "groupinfo": (True, None)}


def nonreply_before_first(R, history, p, mid):
    """a get/set iq carrying id mid is delivered after request p and before the first reply to mid"""
    for _, o in after_request(R, history, p):
        if o[0] == "dlv" and o[1] == mid:
            return o[2] not in ("result", "error")
    return False


def expected_app_callbacks(R, history, p, mid):
    """the property, with retries and with deliveries from inside sends: every issue / re-issue of the id gets
    exactly the callback of the first result/error reply after THAT issue (a re-issue happens inside the callback
    that retries), and it gets it WHEN that reply is delivered.
    -> ([[op position, event], ...], still outstanding at the end?)"""
    op = history[p]
    hs, he = bool(op[2]), bool(op[3])
    rs, re_, left = ([int(x) for x in op[4:7]] + [0, 0, 0])[:3]
    want, armed = [], True
    for q, o in after_request(R, history, p):
        if not armed:
            break
        if o[0] == "dlv" and o[1] == mid and o[2] in ("result", "error"):
            armed = False
            which = "success" if o[2] == "result" else "error"
            if (which == "success" and hs) or (which == "error" and he):
                want.append([q, ["appcb", mid, which, mid, o[2]]])
                if (rs if which == "success" else re_) and left > 0:
                    left -= 1
                    armed = True
    return want, armed


def oracle(R, history, impl):
    """-> list of (name, key, detail) property failures observed on the implementation"""
    if "error" in impl:
        return [("harness-error", None, impl["error"])]
    fails = []
    evs = impl["events"]
    regs = impl.get("regs", {})
    issued = {}      # mid -> (position, op)
    for p, (op, ev) in enumerate(zip(history, evs)):
        if op[0] in ("app", "lib"):
            ids = [e[1] for e in ev if e[0] == "issued"]
            sent = [e for e in ev if e[0] == "sent"]
            if len(ids) != 1:
                fails.append(("request-not-issued", None, {"pos": p, "events": ev}))
                continue
            if ids[0] in issued:
                fails.append(("id-repeated", None, {"id": ids[0], "pos": p}))
            issued[ids[0]] = (p, op)
            # its stanza goes down once (more often only when a callback running inside the send retries)
            bad = not sent or sent[0][1] != ids[0] or ev[1:2] != [sent[0]] or \
                (not R.op_sync(op) and len(sent) != 1)
            if bad:
                fails.append(("request-not-sent-once", None, {"pos": p, "op": op, "events": ev}))
    where = {name: ids for name, ids in regs.items()}
    for mid, (p, op) in sorted(issued.items()):
        first = first_at = None
        for q, o in after_request(R, history, p):
            if o[0] == "dlv" and o[1] == mid and o[2] in ("result", "error"):
                first, first_at = o[2], q
                break
        want_w = {"result": "success", "error": "error", None: None}[first]
        registered_in = sorted(name for name, ids in where.items() if mid in ids)
        if op[0] == "app":
            if op[1] not in R.IN_DOMAIN:
                continue
            got = [[q, e] for q, ev in enumerate(evs) for e in ev
                   if e[0] == "appcb" and (e[1] == mid or e[3] == mid)]
            want, outstanding = expected_app_callbacks(R, history, p, mid)
            if got != want:
                key = None
                if nonreply_before_first(R, history, p, mid):
                    key = "nonreply-iq-with-pending-id-consumes-registration"
                elif first == "error" and not any(e[2] == "error" for _, e in got):
                    key = "%s:error-reply-reaches-no-callback" % op[1]
                elif any(int(x) for x in op[4:7]) and len(got) < len(want) and got == want[:len(got)]:
                    key = "retry-from-callback:reply-to-the-retry-reaches-no-callback"
                what = "callbacks (op position, event) differ"
                if [e for _, e in got] == [e for _, e in want]:
                    what = "the right callbacks, but fired by another delivery than the first reply (a replay)"
                elif first_at == p and not [1 for q, _ in got if q == p]:
                    what = "the reply delivered while the request was being handed down invoked no callback"
                fails.append(("app-callbacks", key, {"id": mid, "kind": op[1], "first_reply": first,
                                                     "first_reply_during_op": first_at, "what": what,
                                                     "expected": want, "observed": got}))
            elif not outstanding and registered_in:
                fails.append(("stale-registry-entry", None,
                              {"id": mid, "kind": op[1], "first_reply": first, "first_reply_during_op": first_at,
                               "still_registered_in": registered_in,
                               "what": "the request was answered but its id is still registered"}))
            elif outstanding and "app" not in registered_in:
                fails.append(("outstanding-request-not-registered", None,
                              {"id": mid, "kind": op[1], "registered_in": registered_in}))
        elif op[1] in LIB_EXPECT:
            hs, he = LIB_EXPECT[op[1]]
            got = [[q, e] for q, ev in enumerate(evs) for e in ev if e[0] == "libcb" and e[3] == mid]
            want = []
            if want_w == "success" and hs:
                want = [[first_at, ["libcb", op[1], "success", mid]]]
            elif want_w == "error" and he:
                want = [[first_at, ["libcb", op[1], "error", mid]]]
            if got != want:
                key = None
                if nonreply_before_first(R, history, p, mid):
                    key = "nonreply-iq-with-pending-id-consumes-registration"
                fails.append(("lib-callbacks", key, {"id": mid, "kind": op[1], "first_reply": first,
                                                     "first_reply_during_op": first_at,
                                                     "expected": want, "observed": got}))
            elif first and registered_in:
                fails.append(("stale-registry-entry", None,
                              {"id": mid, "kind": op[1], "first_reply": first, "first_reply_during_op": first_at,
                               "still_registered_in": registered_in,
                               "what": "the request was answered but its id is still registered"}))
        else:
            # keep-alive ping: its callback is the iq layer's own onPong / onPingError.  What the property demands
            # is observable through what they hand upward: the reply is forwarded by its FIRST delivery only, never
            # by a replay, never twice; an error must be forwarded (else it reached no callback).  Whether the
            # keep-alive's own pong is passed on to the application at all is the callback's business (the code as
            # it is passes it on -- modelled, C08_libping_forwarded_once, compared by the correspondence -- where it
            # arrives as an ordinary entity with an id the application never issued).
            got = [[q, e] for q, ev in enumerate(evs) for e in ev if q >= p and e[0] == "iface" and e[1] == mid]
            want = [[first_at, ["iface", mid, first]]] if first else []
            if got != want and not (first == "result" and got == []):
                fails.append(("libping-forwarding", "ping:error-reply-reaches-no-callback" if first == "error" else None,
                              {"id": mid, "first_reply": first, "first_reply_during_op": first_at,
                               "expected": want, "observed": got}))
            elif first and registered_in:
                fails.append(("stale-registry-entry", None,
                              {"id": mid, "kind": op[1], "first_reply": first, "first_reply_during_op": first_at,
                               "still_registered_in": registered_in,
                               "what": "the keep-alive ping was answered but its id is still registered"}))
    # callbacks for ids nobody issued; unexpected exceptions
    for p, ev in enumerate(evs):
        for e in ev:
            if e[0] == "appcb" and (e[1] not in issued or e[3] != e[1]):
                fails.append(("callback-for-unknown-or-wrong-request", None, {"pos": p, "event": e}))
            if e[0] == "libcb" and e[3] not in issued:
                fails.append(("callback-for-unknown-or-wrong-request", None, {"pos": p, "event": e}))
            if e[0] == "exception":
                fails.append(("exception", None, {"pos": p, "event": e, "op": history[p]}))
    return fails


# ---------------------------------------------------------------- shrinking

def with_sync(R, op, sync):
    if op[0] == "app":
        return (list(op[:7]) + [0, 0, 0])[:7] + [sync] if sync or len(op) > 7 else list(op)
    return [op[0], op[1], sync] if sync or len(op) > 2 else list(op)


def drop_op(R, history, idx):
    """history without op idx; dropping a request also drops the deliveries of its id (nested ones included)
    and renumbers later ids (ids are handed out consecutively)"""
    op = history[idx]
    if op[0] not in ("app", "lib"):
        return history[:idx] + history[idx + 1:]
    m = 1 + sum(1 for o in history[:idx] if o[0] in ("app", "lib"))

    def ren(i):
        return i - 1 if m < i < R.FOREIGN else i
    out = []
    for j, o in enumerate(history):
        if j == idx:
            continue
        if o[0] == "dlv":
            if o[1] == m:
                continue
            out.append(["dlv", ren(o[1])] + list(o[2:]))
        elif o[0] == "oth":
            out.append(["oth", o[1], ren(o[2])])
        elif R.op_sync(o):
            out.append(with_sync(R, o, [[ren(d[0])] + list(d[1:]) for d in R.op_sync(o) if d[0] != m]))
        else:
            out.append(o)
    return out


def candidates(R, cur):
    """smaller / simpler histories: without one op; without one nested delivery; with the nested deliveries
    of one request delivered AFTER its send has returned instead"""
    for idx in range(len(cur) - 1, -1, -1):
        yield drop_op(R, cur, idx)
    for idx in range(len(cur) - 1, -1, -1):
        sync = R.op_sync(cur[idx])
        for j in range(len(sync) - 1, -1, -1):
            yield cur[:idx] + [with_sync(R, cur[idx], sync[:j] + sync[j + 1:])] + cur[idx + 1:]
        if sync:
            yield cur[:idx] + [with_sync(R, cur[idx], [])] + [["dlv"] + list(d) for d in sync] + cur[idx + 1:]


def shrink(R, history, still_fails, budget=200):
    cur = history
    changed = True
    while changed and budget > 0:
        changed = False
        for cand in candidates(R, cur):
            budget -= 1
            if cand and cand != cur and still_fails(cand):
                cur, changed = cand, True
                break
            if budget <= 0:
                break
    # normal form: no empty sync lists
    return [with_sync(R, o, []) [:7 if o[0] == "app" else 2] if o[0] in ("app", "lib") and not R.op_sync(o) and
            len(o) > (7 if o[0] == "app" else 2) else o for o in cur]


# ---------------------------------------------------------------- generators

OWN = 0   # placeholder id in a sync list: "the id this request gets"


def well_shaped(R, history):
    """resolve OWN in sync lists; set the shape of replies to already-issued ids (the request's own id
    included, for its nested deliveries) to the shape of the request's kind"""
    kinds, out = {}, []
    n = 0

    def shaped(mid, typ, shape):
        if mid in kinds and typ in ("result", "error"):
            return R.shape_of(kinds[mid])
        return shape
    for op in history:
        if op[0] in ("app", "lib"):
            n += 1
            kinds[n] = op[1]
            sync = R.op_sync(op)
            if sync:
                sync = [[n if d[0] == OWN else d[0]] + list(d[1:]) for d in sync]
                op = with_sync(R, op, [[d[0], d[1], shaped(*d[:3])] + list(d[3:]) for d in sync])
            out.append(op)
        elif op[0] == "dlv":
            out.append(["dlv", op[1], op[2], shaped(op[1], op[2], op[3])] + list(op[4:]))
        else:
            out.append(op)
    return out


def sends_when_processed(kind, typ):
    """replies whose processing sends a stanza down again (cannot be delivered from inside a send on the real
    stack: toLower's lock is not re-entrant): the group-info success closure sends the original message"""
    return kind == "groupinfo" and typ == "result"


def drivable(R, history):
    """can every nested delivery of the history be made from inside a send on the REAL stack?  Not if its
    processing sends down again (pong to a server ping, group-info success, a callback that retries)."""
    reqs, n = {}, 0
    for op in history:
        if op[0] in ("app", "lib"):
            n += 1
            reqs[n] = op
        for d in R.op_sync(op):
            mid, typ, shape = d[0], d[1], d[2]
            if shape == "sping":
                return False
            rq = reqs.get(mid)
            if rq is None or typ not in ("result", "error"):
                continue
            if sends_when_processed(rq[1], typ):
                return False
            if rq[0] == "app":
                rs, re_, b = ([int(x) for x in rq[4:7]] + [0, 0, 0])[:3]
                if b > 0 and ((typ == "result" and rs and rq[2]) or (typ == "error" and re_ and rq[3])):
                    return False
    return True


def parsable(R, history):
    """no delivery of the history is an error reply the forwarding callback's reply-entity parser rejects
    (outside the domain: reply parsing is not modelled)"""
    reqs, n = {}, 0
    for _, o in expand(R, history):
        if o[0] in ("app", "lib"):
            n += 1
            reqs[n] = o
        elif o[0] == "dlv" and len(o) > 4 and o[4] and o[1] in reqs:
            rq = reqs[o[1]]
            if R.unparsable(rq[0], rq[1], o[2], o[4]):
                return False
    return True


def systematic_content(R):
    """every request kind x every content of the error reply (the <error> child(ren) and their attributes:
    none / code+text / backoff 0, 3600, 1, abc, -5 / two children / no child at all) x what follows: a replay of
    the same error, a result for the same id, an error without backoff; result replies that carry an
    <error backoff> child; the type attribute written in other ways; the same from inside the request's send"""
    hs = []
    reqs = [["app", k, 1, 1] for k in R.AKINDS] + [["lib", k] for k in R.LKINDS]
    for rq in reqs:
        for c in R.ERROR_CONTENTS:
            if R.unparsable(rq[0], rq[1], "error", c):
                continue
            e = ["dlv", 1, "error", "plain", c]
            hs.append([rq, e, e])                                             # then the same error again
            hs.append([rq, e, ["dlv", 1, "result", "plain"], e])              # then a result for the same id
            hs.append([rq, e, ["dlv", 1, "error", "plain"], ["dlv", 1, "result", "plain"]])   # then a plain error
        # a reply that carries no `from`: still the reply to that request
        rn, en = ["dlv", 1, "result", "plain", "res-no-from"], ["dlv", 1, "error", "plain", "err-no-from"]
        if not R.unparsable(rq[0], rq[1], "result", "res-no-from"):
            hs.append([rq, rn, rn, en])
        hs.append([rq, rq, ["dlv", 2, "error", "plain", "err-no-from"], rn if not R.unparsable(rq[0], rq[1], "result", "res-no-from") else en, ["dlv", 2, "result", "plain"]])
        for c in R.RESULT_CONTENTS:
            r = ["dlv", 1, "result", "plain", c]
            hs.append([rq, r, r, ["dlv", 1, "error", "plain", "err-backoff-3600"]])
        if rq[1] == "sync":
            # a reply is a reply whatever its <sync> child says about chunks: the first answers the request, once
            for c in sorted(R.SYNC_CONTENTS):
                r = ["dlv", 1, "result", "sync", c]
                hs.append([rq, r, r, ["dlv", 1, "result", "sync"]])
                hs.append([rq, r, ["dlv", 1, "error", "plain", "err-backoff-3600"], r])
                hs.append([rq, rq, ["dlv", 2, "result", "sync", c], ["dlv", 1, "result", "sync", c],
                           ["dlv", 2, "result", "sync"], ["dlv", 1, "result", "sync"]])
        # "Error" / "ERROR" / "Result" / "errors" are no replies: the request stays outstanding, the real reply
        # (with a backoff) answers it, once
        for t in R.OTHER_TYPES:
            hs.append([rq, ["dlv", 1, t, "plain", "err-backoff-3600"], ["dlv", 1, "error", "plain", "err-backoff-3600"],
                       ["dlv", 1, t, "plain", "err-backoff-3600"], ["dlv", 1, "error", "plain", "err-backoff-3600"]])
        # the backoff error read while the request is still being handed down; replays inside and afterwards
        for c in ("err-backoff-3600", "err-two-plain-backoff"):
            n_ = [OWN, "error", "plain", c]
            hs.append([with_sync(R, rq, [n_]), ["dlv", 1, "error", "plain", c], ["dlv", 1, "result", "plain"]])
            hs.append([with_sync(R, rq, [n_, n_, [OWN, "result", "plain"]])])
        # two outstanding requests of the kind, both refused with a backoff, replays out of order
        b = "err-backoff-3600"
        hs.append([rq, rq, ["dlv", 2, "error", "plain", b], ["dlv", 1, "error", "plain", b],
                   ["dlv", 2, "error", "plain", b], ["dlv", 1, "result", "plain"], ["dlv", 2, "result", "plain"]])
    hs = [well_shaped(R, [list(o) for o in h]) for h in hs]
    return [h for h in hs if drivable(R, h)]


def random_content(R, rng, history):
    """give some deliveries of a history a random content (parsable for the request they answer) and write
    some type attributes in another way"""
    reqs, n, out = {}, 0, []

    def pick(mid, typ):
        if rng.random() < .65:
            return None
        pool = R.RESULT_CONTENTS if typ == "result" else R.ERROR_CONTENTS
        c = rng.choice(pool + ["err-backoff-3600", "err-backoff-1"])
        rq = reqs.get(mid)
        if rq is not None and R.unparsable(rq[0], rq[1], typ, c):
            return None
        return c
    for op in history:
        if op[0] in ("app", "lib"):
            n += 1
            reqs[n] = op
            sync = R.op_sync(op)
            if sync:
                op = with_sync(R, op, [list(d[:3]) + ([pick(d[0], d[1])] if len(d) == 3 else list(d[3:])) for d in sync])
                op = with_sync(R, op, [d if d[3] else d[:3] for d in R.op_sync(op)])
        elif op[0] == "dlv" and len(op) == 4:
            typ = op[2]
            if typ == "error" and rng.random() < .06:
                typ = rng.choice(R.OTHER_TYPES)
            c = pick(op[1], typ)
            op = ["dlv", op[1], typ, op[3]] + ([c] if c else [])
        out.append(op)
    return out


def systematic_ping(R):
    """the library's keep-alive ping (issued like YowPingThread: waitPong(id), sendIq) and an application ping
    outstanding together: both request orders x both reply orders x {result, error}^2 x {then the replays};
    one of the two left unanswered; two keep-alives; the application ping answered from inside its own send"""
    hs = []
    L, A = ["lib", "libping"], ["app", "ping", 1, 1]
    for reqs, (il, ia) in (([L, A], (1, 2)), ([A, L], (2, 1))):
        for tl in ("result", "error"):
            for ta in ("result", "error"):
                dl_, da = ["dlv", il, tl, "plain"], ["dlv", ia, ta, "plain"]
                for first, second in ((da, dl_), (dl_, da)):
                    hs.append(reqs + [first, second])
                    hs.append(reqs + [first, second, first, second])                 # then the replays
                    hs.append(reqs + [first, first, second, second])
                hs.append(reqs + [da, da])                                            # keep-alive never answered
                hs.append(reqs + [dl_, dl_])                                          # application ping never answered
        for ta in ("result", "error"):
            # two keep-alives outstanding (the second waitPong reports a ping timeout), application ping in between
            hs.append([L] + reqs + [["dlv", 1 + ia, ta, "plain"], ["dlv", 1, "result", "plain"],
                                    ["dlv", 1 + il, "result", "plain"], ["dlv", 1 + ia, ta, "plain"]])
    # the application ping answered while it is still being handed down, keep-alive outstanding
    for ta in ("result", "error"):
        hs.append([L, with_sync(R, A + [0, 0, 0], [[OWN, ta, "plain"]]), ["dlv", 2, ta, "plain"], ["dlv", 1, "result", "plain"]])
        hs.append([L, with_sync(R, A + [0, 0, 0], [[1, "result", "plain"], [OWN, ta, "plain"]])])
    # other application requests through other layers are not affected by an outstanding keep-alive
    for k in ("lastseen", "glist", "sync"):
        hs.append([L, ["app", k, 1, 1], ["dlv", 2, "result", "plain"], ["dlv", 1, "result", "plain"], ["dlv", 2, "result", "plain"]])
    return [well_shaped(R, [list(o) for o in h]) for h in hs]


def systematic_sync(R):
    """every request kind x {result, error} delivered from inside the request's own send, x what follows"""
    hs = []
    reqs = [["app", k, 1, 1, 0, 0, 0] for k in R.AKINDS] + [["lib", k] for k in R.LKINDS]
    for rq in reqs:
        for first in ("result", "error"):
            if sends_when_processed(rq[1], first):
                continue
            other = "error" if first == "result" else "result"
            a = [OWN, first, "plain"]

            def rs(sync):
                return with_sync(R, rq, sync)
            fam = [
                [rs([a])],                                                           # the reply alone
                [rs([a]), ["dlv", 1, first, "plain"], ["dlv", 1, other, "plain"]],   # then replays, deferred
                [rs([a, a, [OWN, other, "plain"]])],                                 # replays inside the send too
                [rs([a]), ["dlv", 7, first, "plain"], ["dlv", 901, other, "sync"], ["dlv", 1, first, "plain"]],
                [rs([a, [7, "result", "sync"], [901, "error", "plain"]])],           # unknown ids inside the send
                [rs([a]), ["dlv", 1, "get", "sping"], ["dlv", 1, "set", "plain"], ["dlv", 1, first, "plain"]],
                [rs([a, [OWN, "get", "plain"], [OWN, "set", "sync"]])],              # non-reply, same id, inside
                [rs([[OWN, "set", "plain"], a]), ["dlv", 1, other, "plain"]],        # non-reply first, then the reply
                [rs([[7, "result", "plain"], a])],
                # the send also carries the (late) reply to an EARLIER request, and an earlier reply is replayed
                [["app", "lastseen", 1, 1], ["lib", "fetch_recv"], ["dlv", 2, "error", "plain"],
                 rs([[1, other, "plain"], [2, "error", "plain"], a]), ["dlv", 1, first, "plain"],
                 ["dlv", 3, other, "plain"]],
                # nothing nested for THIS request, but a later request's send carries its reply
                [rq, with_sync(R, ["app", "glist", 1, 1, 0, 0, 0], [[1, first, "plain"], [2, other, "plain"]]),
                 ["dlv", 1, first, "plain"], ["dlv", 2, other, "plain"]],
            ]
            if rq[0] == "app":
                fam += [
                    [with_sync(R, ["app", rq[1], 0, 1, 0, 0, 0], [a]), ["dlv", 1, other, "plain"]],   # callback missing
                    [with_sync(R, ["app", rq[1], 1, 0, 0, 0, 0], [a]), ["dlv", 1, other, "plain"]],
                    # a retry policy that the nested reply does not trigger; the deferred one does
                    [with_sync(R, ["app", rq[1], 1, 1, int(first == "error"), int(first == "result"), 1],
                               [[OWN, "get", "plain"]]), ["dlv", 1, other, "plain"], ["dlv", 1, first, "plain"],
                     ["dlv", 1, first, "plain"]],
                ]
            hs += [h for h in (well_shaped(R, f) for f in fam) if drivable(R, h)]
    return hs


def systematic(R):
    hs = []
    pats = [
        [("result",)], [("error",)], [("result",), ("result",)], [("error",), ("result",)],
        [("result",), ("error",)], [("get",), ("result",)], [("set",), ("error",)],
        [("get",), ("get",), ("error",), ("error",)], [],
    ]
    reqs = [["app", k, 1, 1] for k in R.AKINDS] + [["lib", k] for k in R.LKINDS]
    for rq in reqs:
        for pat in pats:
            h = [rq] + [["dlv", 1, t[0], "plain" if t[0] in ("result", "error") else "sping"] for t in pat]
            hs.append(well_shaped(R, h))
        # reply before the request, then the real one; another request in between
        hs.append(well_shaped(R, [["dlv", 1, "result", "plain"], rq, ["app", "lastseen", 1, 1],
                                  ["dlv", 2, "error", "plain"], ["dlv", 1, "error", "plain"],
                                  ["dlv", 1, "result", "plain"]]))
        # no callbacks given
        if rq[0] == "app":
            hs.append(well_shaped(R, [[rq[0], rq[1], 0, 1], ["dlv", 1, "result", "plain"], ["dlv", 1, "error", "plain"]]))
            hs.append(well_shaped(R, [[rq[0], rq[1], 1, 0], ["dlv", 1, "error", "plain"], ["dlv", 1, "result", "plain"]]))
        # non-iq stanzas carrying the pending id
        hs.append(well_shaped(R, [rq] + [["oth", tag, 1] for tag in ("receipt", "ack", "presence", "chatstate")] +
                              [["dlv", 1, "error", "plain"]]))
    # retries issued from inside the callbacks, every kind
    for k in R.AKINDS:
        for (rs, re_, b), pat in [
            ((0, 1, 1), ["error", "result", "result"]),
            ((0, 1, 1), ["error", "error", "result"]),
            ((1, 0, 1), ["result", "result", "error"]),
            ((1, 1, 2), ["result", "error", "get", "result", "error"]),
            ((0, 1, 2), ["error", "set", "error", "error", "result"]),
            ((0, 1, 1), ["result", "error"]),
            ((1, 1, 0), ["error", "result"]),
        ]:
            h = [["app", k, 1, 1, rs, re_, b]] + \
                [["dlv", 1, t, "plain" if t in ("result", "error") else "sping"] for t in pat]
            hs.append(well_shaped(R, h))
        # a retrying request interleaved with another one, no success callback given
        hs.append(well_shaped(R, [["app", k, 1, 1, 0, 1, 1], ["app", "lastseen", 0, 1, 0, 1, 1],
                                  ["dlv", 2, "error", "plain"], ["dlv", 1, "error", "plain"],
                                  ["dlv", 2, "result", "plain"], ["dlv", 1, "result", "plain"],
                                  ["dlv", 2, "error", "plain"]]))
    # unknown / foreign ids, every type and shape, with something pending
    for t in R.ITYPES:
        for sh in R.SHAPES:
            hs.append([["app", "ping", 1, 1], ["lib", "fetch_recv"], ["dlv", 7, t, sh], ["dlv", 901, t, sh],
                       ["dlv", 1, "result", "plain"], ["dlv", 2, "result", "plain"]])
    return hs


def random_history(R, rng, p_sync=0.0):
    n_ops = rng.choice([3, 5, 8, 12, 16, 22])
    h, issued, answered = [], [], set()
    retrying, kind_of = set(), {}
    allreq = [("app", k) for k in R.AKINDS] + [("lib", k) for k in R.LKINDS]

    def pick_id(own=None):
        outstanding = [m for m in issued if m not in answered]
        y = rng.random()
        if own is not None and y < .6:
            return own
        if y < .75 and outstanding:
            return rng.choice(outstanding)
        if y < .85 and issued:
            return rng.choice(issued)
        if y < .93:
            return len(issued) + rng.randint(1, 2) + (1 if own is not None else 0)
        return R.FOREIGN + rng.randint(0, 3)
    for _ in range(n_ops):
        outstanding = [m for m in issued if m not in answered]
        x = rng.random()
        if (x < .35 and len(outstanding) < 6) or not issued:
            o, k = rng.choice(allreq)
            own = len(issued) + 1
            kind_of[own] = k
            retry = None
            if o == "app":
                fl = (1, 1) if rng.random() < .8 else (rng.randint(0, 1), rng.randint(0, 1))
                if rng.random() < .3:
                    retry = [rng.randint(0, 1), rng.randint(0, 1), rng.randint(0, 3)]
                    if (retry[0] or retry[1]) and retry[2]:
                        retrying.add(own)
                req = ["app", k, fl[0], fl[1]] + (retry or [])
            else:
                req = ["lib", k]
            sync = []
            if rng.random() < p_sync:
                # deliveries from inside this send; never one whose processing would send down again
                for _ in range(rng.choice([1, 1, 1, 2, 2, 3])):
                    m = pick_id(own)
                    t = rng.choices(R.ITYPES, weights=[45, 35, 10, 10])[0]
                    if m in retrying or sends_when_processed(kind_of.get(m), t):
                        continue
                    sync.append([m, t, rng.choice(["plain", "plain", "sync"])])
                    if (m in issued or m == own) and t in ("result", "error"):
                        answered.add(m)
            issued.append(own)
            h.append(with_sync(R, req, sync) if sync else req)
        elif x < .93:
            m = pick_id()
            t = rng.choices(R.ITYPES, weights=[45, 35, 10, 10])[0]
            h.append(["dlv", m, t, rng.choice(R.SHAPES)])
            if m in issued and t in ("result", "error"):
                answered.add(m)
        else:
            m = rng.choice(issued + [R.FOREIGN + 1])
            h.append(["oth", rng.choice(["receipt", "ack", "presence", "chatstate"]), m])
    return well_shaped(R, h)


def exhaustive(R, maxlen, small=False, minlen=1):
    """every history of length minlen..maxlen over 2 ids"""
    if small:
        reqs = [["app", "ping", 1, 1, 1, 1, 1], ["app", "sync", 1, 1], ["lib", "fetch_send"],
                ["app", "gleave", 1, 1, 0, 0, 0, [[OWN, "error", "plain"]]]]
        dl = [["dlv", m, t, "plain"] for m in (1, 2) for t in ("result", "error", "get")]
    else:
        reqs = [["app", "ping", 1, 1], ["app", "sync", 1, 1, 0, 1, 1], ["app", "glist", 1, 1, 1, 1, 2],
                ["lib", "fetch_send"],
                # answered from inside their own send
                ["app", "lastseen", 1, 1, 0, 0, 0, [[OWN, "result", "plain"]]],
                ["lib", "fetch_ctl", [[OWN, "error", "plain"], [1, "result", "plain"]]],
                ["app", "sync", 1, 1, 0, 0, 0, [[OWN, "get", "plain"], [OWN, "result", "plain"], [OWN, "result", "plain"]]]]
        dl = [["dlv", m, t, "plain"] for m in (1, 2) for t in R.ITYPES]
    alpha = reqs + dl
    for n in range(minlen, maxlen + 1):
        for combo in itertools.product(alpha, repeat=n):
            if combo[0][0] == "dlv" and n > 1 and all(o[0] == "dlv" for o in combo):
                continue
            h = well_shaped(R, [list(o) for o in combo])
            if drivable(R, h):
                yield h


def corpus(R):
    out = []
    for p in sorted(glob.glob(os.path.join(VERIF, "corpus", "C08", "*.json"))):
        try:
            d = json.load(open(p))
            out.append((os.path.basename(p), d["history"]))
        except Exception:
            pass
    return out


# ---------------------------------------------------------------- the check

def table_summary(R, tab):
    if isinstance(tab, tuple):
        return {"error": tab}
    routes = {}
    for k, r in zip(R.AKINDS, tab[0]):
        routes[k] = ("reg:%s:%d%d" % (R.LAYERS[r[1]], r[2], r[3])) if r[0] == 0 else \
            ("fwd:%s" % R.LAYERS[r[1]]) if r[0] == 1 else "none"
    return {"routes": routes, "lib": {k: [R.LAYERS[v[0]], v[1], v[2]] for k, v in zip(R.LKINDS, tab[1])},
            "strict_reply": bool(tab[2]), "strict_iface": bool(tab[3]), "cfg_ok": bool(tab[4]),
            "kinds_not_ok": [k for k, ok in zip(R.AKINDS, tab[5]) if not ok and k in R.IN_DOMAIN],
            "late_delete": bool(tab[6]), "late_delete_iface": bool(tab[7]),
            "register_before_send": bool(tab[8]), "register_before_send_iface": bool(tab[9]),
            "all_routed": bool(tab[10])}


def shape_op(R, o):
    """an op with the request kind and the retry policy masked (for reporting each minimal history once)"""
    if o[0] == "app":
        return ["app", "*"] + list(o[2:4]) + [R.op_sync(o)]
    if o[0] == "lib":
        return ["lib", "*", R.op_sync(o)]
    return o


def known_open(ctx, key):
    return ctx.known_match(key) if key is not None else None


def coqchk():
    import subprocess
    try:
        p = subprocess.run(["coqchk", "-silent", "-o", "-Q", ".", "YV", "YV.Properties.C08"],
                           cwd=os.path.join(VERIF, "coq"), stdout=subprocess.PIPE, stderr=subprocess.STDOUT,
                           text=True, timeout=900)
    except Exception as e:
        return "failed: %s" % e
    out = " ".join(p.stdout.split())
    if p.returncode == 0 and "Axioms: <none>" in out:
        return "ok: " + out[-260:]
    return "failed rc=%d: %s" % (p.returncode, out[-400:])


def run(ctx):
    R = _rig()
    # 0. translator
    try:
        info = c08_table.regenerate(env.REPO)
        ctx.ties["translator:c08_table"] = "ok"
        ctx.coverage["translator"] = {"leaves": info["leaves"], "callbacks_checked": info["callbacks_checked"],
                                      "register_before_send": info["register_before_send"],
                                      "register_before_send_iface": info["register_before_send_iface"]}
        for k in ("registry_flags_protocol", "registry_flags_interface", "register_before_send_protocol",
                  "register_before_send_interface", "iq_layer_callbacks"):
            if k in info:
                ctx.coverage["translator"][k] = info[k]
        if info.get("tie_broken"):   # the table is the real one (model usable), but the source deviates
            ctx.ties["translator:c08_table"] = "broken: %s" % info["tie_broken"]
    except c08_table.TranslateError as e:
        ctx.ties["translator:c08_table"] = "broken: %s" % e
    ctx.prove()
    exe = ctx.build_model("C08")
    if ctx.tier == "thorough" and ctx.proof_ok:
        ctx.coverage["coqchk"] = coqchk()
        if not ctx.coverage["coqchk"].startswith("ok"):
            ctx.proof_ok = False
            ctx.ties["proof"] = "broken: coqchk: " + ctx.coverage["coqchk"][-300:]
    model = modelrun.Model(exe) if exe else None
    if model:
        ctx.coverage["generated_table"] = table_summary(R, model.call("run_table", []))

    cases = [("corpus:" + name, h) for name, h in corpus(R)]
    # first of the generated families: if the iq layer's callbacks deviate (translator tie), the concrete history
    # is found before anything else is reported
    cases += [("systematic-ping", h) for h in systematic_ping(R)]
    cases += [("systematic", h) for h in systematic(R)]
    cases += [("systematic-sync", h) for h in systematic_sync(R)]
    nrand = 3000 if ctx.tier == "quick" else 40000
    cases += [("random", random_history(R, ctx.rng)) for _ in range(nrand)]
    nrs = 2000 if ctx.tier == "quick" else 30000
    cases += [("random-sync", random_history(R, ctx.rng, p_sync=0.45)) for _ in range(nrs)]
    cases += [("systematic-content", h) for h in systematic_content(R)]
    nrc = 2000 if ctx.tier == "quick" else 30000
    cases += [("random-content", random_content(R, ctx.rng, random_history(R, ctx.rng, p_sync=0.25)))
              for _ in range(nrc)]
    unparsed = [src for src, h in cases if not parsable(R, h)]
    if unparsed:   # generator bug, not a finding
        ctx.notes.append("generator: %d histories with error replies the reply-entity parser rejects were skipped" % len(unparsed))
        cases = [(src, h) for src, h in cases if parsable(R, h)]
    undrivable = [(src, h) for src, h in cases if not drivable(R, h)]
    if undrivable:   # a generator bug, not a finding: such a history would raise inside the rig
        ctx.notes.append("generator: %d histories with nested deliveries that send down again were skipped, e.g. %s %s"
                         % (len(undrivable), undrivable[0][0], json.dumps(undrivable[0][1])))
        cases = [(src, h) for src, h in cases if drivable(R, h)]
    if ctx.tier == "thorough":
        cases += [("exhaustive", h) for h in exhaustive(R, 4)]
        cases += [("exhaustive5", h) for h in exhaustive(R, 5, small=True, minlen=5)]
    else:
        cases += [("exhaustive", h) for h in exhaustive(R, 3)]

    # the nested families once more with a real second thread delivering while the sender waits inside send()
    cases += [(src + "-2thread", h) for src, h in cases
              if src.split(":")[0] in ("systematic-sync", "corpus") and has_sync(R, h)]
    impl = [run_impl(R, h, reader_thread=src.endswith("-2thread")) for src, h in cases]
    mod = None
    if model:
        raw = model.call_many("run_hist", [[enc_op(R, o) for o in h] for _, h in cases])
        mod = [dec_model(R, r) for r in raw]

    mismatches, oracle_fail_cases = 0, 0
    distinct, nontrivial, nontrivial_sync = set(), 0, 0
    kinds_cov, sync_cov, srcs = {}, {}, {}
    reported_oracle, reported_corr, reported_shapes = set(), set(), set()
    for i, (src, h) in enumerate(cases):
        sk = src.split(":")[0] + ("-2thread" if ":" in src and src.endswith("-2thread") else "")
        srcs[sk] = srcs.get(sk, 0) + 1
        key = json.dumps(h)
        if key not in distinct:
            distinct.add(key)
            n_req = 0
            touched = False
            for _, o in expand(R, h):
                if o[0] in ("app", "lib"):
                    n_req += 1
                elif o[0] == "dlv" and o[1] <= n_req:
                    touched = True
            if touched:
                nontrivial += 1
                if has_sync(R, h):
                    nontrivial_sync += 1
        n = 0
        kinds = {}
        for p, o in expand(R, h):
            if o[0] in ("app", "lib"):
                n += 1
                kinds[n] = (o[1], p)
            elif o[0] == "dlv" and o[1] in kinds and o[2] in ("result", "error"):
                kk, at = kinds.pop(o[1])
                ck = "%s:%s" % (kk, o[2])
                kinds_cov[ck] = kinds_cov.get(ck, 0) + 1
                if at == p:   # answered from inside its own send
                    sync_cov[ck] = sync_cov.get(ck, 0) + 1
        # property oracle on the implementation
        fails = oracle(R, h, impl[i])
        if fails:
            oracle_fail_cases += 1
            name, fkey, detail = fails[0]
            # one report per sort of failure, not one per request kind
            sig = (name, fkey.split(":", 1)[-1] if fkey else None,
                   detail.get("what") if isinstance(detail, dict) else None,
                   detail.get("kind") in R.LKINDS if isinstance(detail, dict) else None)
            if sig not in reported_oracle and len(reported_oracle) < 20:
                reported_oracle.add(sig)

                def still(c, _name=name, _fkey=fkey):
                    f = oracle(R, c, run_impl(R, c, reader_thread=src.endswith("-2thread")))
                    return any(x[0] == _name and x[1] == _fkey for x in f)
                small = shrink(R, h, still)
                si = run_impl(R, small, reader_thread=src.endswith("-2thread"))
                sf = [x for x in oracle(R, small, si) if x[0] == name and x[1] == fkey]
                shape = (name, src.endswith("-2thread"),
                         json.dumps([shape_op(R, o) for o in small]))
                # (the same minimal history for another request kind is reported once)
                if shape not in reported_shapes or known_open(ctx, fkey) is not None:
                    reported_shapes.add(shape)
                    ctx.violation("oracle:" + name,
                                  {"history": small, "failure": sf[0][2] if sf else detail,
                                   "observed_events": si.get("events"), "registries_after": si.get("regs"),
                                   "original_history": h, "source": src,
                                   "reader_thread": src.endswith("-2thread")}, key=fkey)
        # correspondence
        if mod is not None and mod[i] != impl[i]:
            mismatches += 1
            sig = src.split(":")[0]
            if len(reported_corr) < 8:
                reported_corr.add(mismatches)

                def differs(c):
                    r = model.call("run_hist", [enc_op(R, o) for o in c])
                    return dec_model(R, r) != run_impl(R, c, reader_thread=src.endswith("-2thread"))
                small = shrink(R, h, differs)
                cshape = json.dumps([shape_op(R, o) for o in small])
                if cshape not in reported_shapes:   # (once per minimal history, whatever the request kind)
                    reported_shapes.add(cshape)
                    sm = dec_model(R, model.call("run_hist", [enc_op(R, o) for o in small]))
                    si = run_impl(R, small, reader_thread=src.endswith("-2thread"))
                    ctx.violation("correspondence:C08.history",
                                  {"history": small, "model": sm, "impl": si, "original_history": h, "source": src,
                                   "reader_thread": src.endswith("-2thread")},
                                  found_input=bool(oracle(R, small, si)))
        if i % 431 == 0:
            ctx.add_sample({"source": src, "history": h, "events": impl[i].get("events"),
                            "registries_after": {k: v for k, v in impl[i].get("regs", {}).items() if v}})
    if model:
        model.close()
        ctx.ties["correspondence"] = "ok" if mismatches == 0 else "broken (%d histories)" % mismatches
    # every request kind must have been exercised with a result-first and an error-first history
    missing = [k + ":" + t for k in R.AKINDS + R.LKINDS for t in ("result", "error")
               if (k + ":" + t) not in kinds_cov]
    missing += ["sync:" + k + ":" + t for k in R.AKINDS + R.LKINDS for t in ("result", "error")
                if (k + ":" + t) not in sync_cov and not sends_when_processed(k, t)]
    if missing:
        ctx.notes.append("generator gap: no first-reply case for " + ", ".join(missing))
        if ctx.tier == "thorough":
            ctx.tie_broken_without_input("generator:coverage", "missing " + ", ".join(missing))
    if not ctx.proof_ok and not ctx.violations:
        ctx.tie_broken_without_input("theorem:" + ctx.failing_theorem(), ctx.ties.get("proof"))
    if str(ctx.ties.get("translator:c08_table", "")).startswith("broken") and not ctx.violations:
        ctx.tie_broken_without_input("translator:c08_table", ctx.ties["translator:c08_table"])
    if model is None and not ctx.violations:
        ctx.tie_broken_without_input("model-build:C08", ctx.ties.get("model-build:C08"))
    ctx.coverage["evaluations"] = len(cases)
    ctx.coverage["distinct_nontrivial"] = nontrivial
    ctx.coverage["distinct_histories"] = len(distinct)
    ctx.coverage["case_sources"] = srcs
    ctx.coverage["first_reply_cases_per_kind"] = kinds_cov
    ctx.coverage["first_reply_from_inside_own_send_per_kind"] = sync_cov
    ctx.coverage["distinct_nontrivial_with_nested_deliveries"] = nontrivial_sync
    ctx.coverage["oracle_failing_histories"] = oracle_fail_cases
    ctx.coverage["correspondence_mismatches"] = mismatches
    ctx.coverage["exhaustive"] = False
    return ctx.finish(
        rule="a case is a history of application requests (24 kinds x callback flags x retry-from-callback policy: "
             "re-issue the same request from inside the success/error callback, bounded), library-internal requests "
             "(key fetch from the 3 axolotl layers, key upload, group info, keep-alive ping), iq deliveries "
             "(id: outstanding / answered / not yet issued / foreign; type result|error|get|set; shape "
             "plain|sync|server-ping), non-iq stanzas carrying ids, and -- on any request -- iq stanzas delivered by "
             "the bottom of the stack from INSIDE its send() of that request (replies to this very request, replays, "
             "non-reply iqs with its id, stanzas for other ids); corpus (the _refuted witnesses) first, "
             "a systematic set (every kind x 9 reply patterns + 8 retry-in-callback patterns + reply-before-request + missing callbacks + "
             "non-iq stanzas), a systematic nested set (every kind x {result, error} answered from inside its own send "
             "x 11-14 continuations), every history of length <= 3 (quick) / 4 (thorough) over 15 ops (3 of them "
             "requests answered from inside their send) and 2 ids, seeded random histories with <= 6 outstanding "
             "requests, without and with (45 % of the requests) nested deliveries; non-trivial = distinct history in "
             "which an iq is delivered for an id issued earlier in it (or from inside the send of the request "
             "that gets the id)",
        assumptions_text=ASSUME)


def replay(ctx, data):
    R = _rig()
    case = data["case"]
    h = case.get("history")
    if not h:
        print("nothing to replay:", case)
        return 1
    impl = run_impl(R, h, reader_thread=bool(case.get("reader_thread")))
    if case.get("reader_thread"):
        print("(nested deliveries made by a second thread while the sender waits inside send())")
    print("history :", json.dumps(h))
    print("observed:", json.dumps(impl.get("events", impl)))
    print("registries after:", json.dumps({k: v for k, v in impl.get("regs", {}).items() if v}))
    fails = oracle(R, h, impl)
    rc = 0
    for name, key, detail in fails:
        print("property fails:", name, json.dumps(detail, default=str))
        rc = 1
    if "model" in case:
        try:
            c08_table.regenerate(env.REPO)
        except c08_table.TranslateError as e:
            print("translator:", e)
        exe = ctx.build_model("C08")
        if exe:
            m = modelrun.Model(exe)
            mm = dec_model(R, m.call("run_hist", [enc_op(R, o) for o in h]))
            m.close()
            print("model   :", json.dumps(mm.get("events", mm), default=str))
            if mm != impl:
                print("model and implementation disagree")
                rc = 1
    if rc:
        print("VIOLATION property=C08 replay=(replayed)")
    return rc
