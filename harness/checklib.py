"""Shared machinery of every check: Coq re-check, gates, verdict protocol, evidence."""
import os, re, sys, json, time, random, fcntl, subprocess, hashlib, glob
from .env import VERIF, REPO
from . import modelrun

COQ = os.path.join(VERIF, "coq")
EVID = os.path.join(VERIF, "evidence")
REPLAY = os.path.join(EVID, "replay")
KNOWN = os.path.join(VERIF, "known_findings")

FORBIDDEN = re.compile(
    r"\b(Admitted|admit|Axiom|Axioms|Parameter|Parameters|Conjecture|Conjectures|give_up|"
    r"Admit\s+Obligations|bypass_check|Unset\s+Guard\s+Checking|Unset\s+Positivity\s+Checking|"
    r"Unset\s+Universe\s+Checking|type-in-type|impredicative-set|native_compute)\b")

TRUSTED_BASE_COMMON = [
    "Coq 8.16.1 kernel (coqc, full .vo build, no -vos); vm_compute used, native_compute not used",
    "no Axiom/Parameter/Admitted anywhere under coq/ (gate re-run on every check)",
    "extraction: ExtrOcamlBasic directives only (bool, option, unit, list, prod, sumbool -> OCaml natives); "
    "no Extract Constant; N/Z/nat stay Coq datatypes; OCaml 4.13.1 ocamlopt",
    "ocaml/sxdriver.ml (line parser/printer, oracle pipe) and coq/<Topic>/<Topic>Run.v glue",
    "harness/env.py shims for six 1.10 and consonance 0.1.5 under Python 3.12 (third-party, not yowsup)",
]


def strip_comments(src):
    out, depth, i, n = [], 0, 0, len(src)
    while i < n:
        if src.startswith("(*", i):
            depth += 1
            i += 2
        elif src.startswith("*)", i) and depth > 0:
            depth -= 1
            i += 2
        else:
            if depth == 0:
                out.append(src[i])
            i += 1
    return "".join(out)


def gate_scan_sections(path):
    """Variables/Hypotheses must sit inside a Section: precise scan with a name stack."""
    src = strip_comments(open(path).read())
    stack, bad = [], []
    tok = re.compile(r"\b(Section|Module\s+Type|Module|End|Variable|Variables|Hypothesis|Hypotheses|Context)\b\s*(\w*)")
    for m in tok.finditer(src):
        kw, name = m.group(1), m.group(2)
        if kw == "Section":
            stack.append(("S", name))
        elif kw.startswith("Module"):
            stack.append(("M", name))
        elif kw == "End":
            if stack and stack[-1][1] == name:
                stack.pop()
        else:
            if not any(k == "S" for k, _ in stack):
                bad.append("%s: %s outside a section" % (os.path.relpath(path, COQ), kw))
    return bad


def closure(pid_file):
    """Transitive `From YV Require ...` closure of a .v file (paths)."""
    seen, todo = [], [pid_file]
    while todo:
        p = todo.pop()
        if p in seen or not os.path.exists(p):
            continue
        seen.append(p)
        src = strip_comments(open(p).read())
        for m in re.finditer(r"From\s+YV\s+Require\s+(?:Import\s+|Export\s+)?([\w.\s]+?)\.(?:\s|$)", src):
            for mod in m.group(1).split():
                todo.append(os.path.join(COQ, *mod.split(".")) + ".v")
        for m in re.finditer(r"(?<!YV\s)Require\s+(?:Import\s+|Export\s+)?([\w.\s]+?)\.(?:\s|$)", src):
            for mod in m.group(1).split():
                if mod.startswith("YV."):
                    todo.append(os.path.join(COQ, *mod.split(".")[1:]) + ".v")
    return seen


def full_gate(files=None):
    probs = []
    if files is None:
        files = glob.glob(os.path.join(COQ, "**", "*.v"), recursive=True)
    for p in sorted(files):
        src = strip_comments(open(p).read())
        src = re.sub(r'"[^"]*"', '""', src)
        m = FORBIDDEN.search(src)
        if m:
            probs.append("%s: forbidden token %r" % (os.path.relpath(p, COQ), m.group(0)))
        probs += gate_scan_sections(p)
    return probs


def regen_coqproject():
    head = open(os.path.join(COQ, "_CoqProject.head")).read()
    files = []
    for p in glob.glob(os.path.join(COQ, "**", "*.v"), recursive=True):
        files.append(os.path.relpath(p, COQ))
    new = head + "\n".join(sorted(files)) + "\n"
    cp = os.path.join(COQ, "_CoqProject")
    old = open(cp).read() if os.path.exists(cp) else None
    if old != new or not os.path.exists(os.path.join(COQ, "Makefile")):
        open(cp, "w").write(new)
        subprocess.run(["coq_makefile", "-f", "_CoqProject", "-o", "Makefile"], cwd=COQ,
                       stdout=subprocess.DEVNULL, stderr=subprocess.DEVNULL, check=True)


class CoqLock(object):
    def __enter__(self):
        self.f = open(os.path.join(COQ, ".lock"), "w")
        fcntl.flock(self.f, fcntl.LOCK_EX)
        return self

    def __exit__(self, *a):
        fcntl.flock(self.f, fcntl.LOCK_UN)
        self.f.close()


def parse_assumptions(log):
    """Split coqc output of a Properties file into one entry per Print Assumptions."""
    res, cur = [], None
    for line in log.splitlines():
        if line.startswith("Closed under the global context"):
            if cur is not None:
                res.append(cur)
                cur = None
            res.append("Closed under the global context")
        elif line.startswith("Axioms:") or line.startswith("Section Variables:"):
            if cur is not None:
                res.append(cur)
            cur = line
        elif cur is not None:
            if line.startswith("COQC") or line.startswith("make"):
                res.append(cur)
                cur = None
            else:
                cur += " " + line.strip()
    if cur is not None:
        res.append(cur)
    return res


class Ctx(object):
    def __init__(self, pid, tier, seed):
        self.pid, self.tier, self.seed = pid, tier, seed
        self.rng = random.Random(seed)
        self.t0 = time.time()
        self.violations = []       # dicts: kind,name,replay,found_input
        self.known_hits = []
        self.coverage = {"evaluations": 0, "distinct_nontrivial": 0, "samples": []}
        self.assumptions = []
        self.theorems = []
        self.proof_ok = False
        self.proof_log = ""
        self.ties = {}             # name -> "ok" | "broken: ..."
        self.notes = []
        os.makedirs(REPLAY, exist_ok=True)
        self.known = []
        kf = os.path.join(KNOWN, pid + ".json")
        if os.path.exists(kf):
            self.known = [k for k in json.load(open(kf)).get("findings", [])
                          if k.get("property") == pid]

    # ---------- Coq ----------
    def prove(self, extra_targets=(), timeout=1500):
        """Re-check Properties/<pid>.v (and whatever it depends on) with coqc."""
        pfile = os.path.join(COQ, "Properties", self.pid + ".v")
        self.theorems = re.findall(r"^Theorem\s+(\w+)", strip_comments(open(pfile).read()), re.M)
        self.closure = closure(pfile)
        probs = full_gate(self.closure)
        if probs:
            self.proof_ok = False
            self.proof_log = "gate: " + "; ".join(probs)
            self.ties["proof"] = "broken: " + self.proof_log
            return False
        with CoqLock():
            regen_coqproject()
            vo = os.path.join(COQ, "Properties", self.pid + ".vo")
            if os.path.exists(vo):
                os.remove(vo)
            targets = ["Properties/%s.vo" % self.pid] + list(extra_targets)
            p = subprocess.run(["make", "-j8"] + targets, cwd=COQ, stdout=subprocess.PIPE,
                               stderr=subprocess.STDOUT, text=True, timeout=timeout)
        self.proof_log = p.stdout
        self.assumptions = parse_assumptions(p.stdout)
        self.proof_ok = (p.returncode == 0 and len(self.assumptions) >= len(self.theorems)
                         and len(self.theorems) > 0)
        if self.proof_ok:
            self.ties["proof"] = "ok"
        else:
            err = [l for l in p.stdout.splitlines() if "Error" in l or l.startswith("File ")]
            self.ties["proof"] = "broken: " + " | ".join(err[:4])[:600]
        return self.proof_ok

    def failing_theorem(self):
        """Best effort: name the first theorem/lemma the build log complains about."""
        m = re.search(r'File "\./([^"]+)", line (\d+)', self.proof_log)
        if not m:
            return self.proof_log[-300:]
        path, line = os.path.join(COQ, m.group(1)), int(m.group(2))
        try:
            src = open(path).read().splitlines()[:line]
        except OSError:
            return m.group(0)
        for l in reversed(src):
            mm = re.match(r"\s*(Theorem|Lemma|Example|Definition|Corollary|Fact)\s+(\w+)", l)
            if mm:
                return "%s:%s" % (m.group(1), mm.group(2))
        return m.group(0)

    def build_model(self, topic):
        try:
            probs = full_gate(closure(os.path.join(COQ, topic, topic + "Run.v")))
            if probs:
                raise modelrun.BuildError("gate: " + "; ".join(probs))
            with CoqLock():
                regen_coqproject()
                p = subprocess.run(["make", "-j8", "%s/%sRun.vo" % (topic, topic)], cwd=COQ,
                                   stdout=subprocess.PIPE, stderr=subprocess.STDOUT, text=True,
                                   timeout=1500)
                if p.returncode != 0:
                    raise modelrun.BuildError(p.stdout[-2000:])
                exe = modelrun.build(topic)
            self.ties["model-build:" + topic] = "ok"
            return exe
        except modelrun.BuildError as e:
            self.ties["model-build:" + topic] = "broken: " + str(e)[-600:]
            return None

    # ---------- verdicts ----------
    def _replay_path(self, data):
        h = hashlib.sha1(json.dumps(data, sort_keys=True, default=str).encode()).hexdigest()[:12]
        return os.path.join(REPLAY, "%s-%s.json" % (self.pid, h))

    def known_match(self, key):
        for k in self.known:
            if k.get("status", "open") == "open" and k.get("key") == key:
                return k
        return None

    def violation(self, name, data, found_input=True, key=None):
        """Record a violation (or a KNOWN-FINDING when `key` is listed as open)."""
        if key is not None:
            k = self.known_match(key)
            if k is not None:
                if key not in [x["key"] for x in self.known_hits]:
                    self.known_hits.append(k)
                return
        # separate budgets: a record WITH a failing input is never crowded out by ties that merely broke
        same = [v for v in self.violations if v["found_input"] == found_input]
        if len(same) >= (8 if found_input else 4):
            return
        rec = {"property": self.pid, "what_no_longer_checks": name, "seed": self.seed,
               "tier": self.tier, "found_failing_input": found_input, "key": key, "case": data,
               "replay_cmd": "./check %s --replay <this file>" % self.pid}
        path = self._replay_path(rec)
        with open(path, "w") as f:
            json.dump(rec, f, indent=1, default=str)
        self.violations.append({"name": name, "replay": path, "found_input": found_input})

    def tie_broken_without_input(self, name, detail):
        self.violation(name, {"detail": detail}, found_input=False)

    def add_sample(self, s, limit=5):
        if len(self.coverage["samples"]) < limit:
            self.coverage["samples"].append(s)

    def coqchk(self, timeout=1500):
        """thorough tier: re-check the property's .vo closure with the independent checker and
        record the axioms it reports (library axioms of everything loaded included)"""
        try:
            with CoqLock():
                p = subprocess.run(["coqchk", "-silent", "-o", "-Q", ".", "YV", "YV.Properties." + self.pid],
                                   cwd=COQ, stdout=subprocess.PIPE, stderr=subprocess.STDOUT, text=True,
                                   timeout=timeout)
            out = p.stdout
            m = re.search(r"\* Axioms:(.*?)\n\s*\n\* Constants", out, re.S)
            axioms = " ".join(m.group(1).split()) if m else "unparsed"
            self.coverage["coqchk"] = {"exit": p.returncode, "axioms": axioms}
            if p.returncode != 0:
                self.ties["coqchk"] = "broken: " + out[-400:]
            return p.returncode == 0
        except Exception as e:  # timeout etc.
            self.coverage["coqchk"] = {"error": str(e)[:200]}
            return False

    # ---------- evidence ----------
    def finish(self, rule, assumptions_text, extra=None, level="proof"):
        cov = self.coverage
        if self.tier == "thorough" and self.proof_ok and "coqchk" not in cov:
            if not self.coqchk() and not self.violations and "error" not in cov.get("coqchk", {}):
                self.tie_broken_without_input("coqchk:Properties/%s" % self.pid, self.ties.get("coqchk"))
        cov["rule"] = rule
        cov["obligations"] = len(self.theorems)
        cov["discharged"] = len(self.theorems) if self.proof_ok else 0
        cov["checker_cmd"] = "make -C coq Properties/%s.vo  (coqc 8.16.1, full .vo)" % self.pid
        cov["theorems"] = self.theorems
        cov["print_assumptions"] = self.assumptions
        cov["trusted_base"] = TRUSTED_BASE_COMMON + list(assumptions_text) + \
            ["Print Assumptions: " + "; ".join(sorted(set(self.assumptions)))]
        cov["ties"] = self.ties
        cov["known_findings_seen"] = [k.get("key") for k in self.known_hits]
        if self.notes:
            cov["notes"] = self.notes
        if extra:
            cov.update(extra)
        if not cov["samples"]:
            cov["samples"] = ["(no sample recorded)"]
        ev = {"property_id": self.pid, "tier": self.tier, "seed": self.seed, "level": level,
              "coverage": cov, "assumptions": list(assumptions_text),
              "wall_s": round(time.time() - self.t0, 2), "violations": len(self.violations)}
        os.makedirs(EVID, exist_ok=True)
        with open(os.path.join(EVID, self.pid + ".json"), "w") as f:
            json.dump(ev, f, indent=1, default=str)
        for k in self.known_hits:
            print("KNOWN-FINDING: property=%s %s" % (self.pid, k.get("what", k.get("key"))))
        for v in sorted(self.violations, key=lambda v: not v["found_input"]):      # concrete failing inputs first
            print("VIOLATION property=%s replay=%s%s" % (
                self.pid, v["replay"], "" if v["found_input"] else " no-failing-input-found"))
        sys.stdout.flush()
        return 1 if self.violations else 0
