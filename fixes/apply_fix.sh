#!/bin/bash
# usage: apply_fix.sh <patch> "<commit message starting with fix:>"   (integrator only)
set -e
cd /repo
git apply --check "$1"
git apply "$1"
out=$(/venv/bin/python -m pytest -q -p no:cacheprovider --timeout=900 --continue-on-collection-errors 2>&1 | tail -1)
echo "$out"
case "$out" in
  "79 passed"*"17 errors"*) git commit -qam "$2"; git log --oneline | head -1;;
  *) echo "TESTS CHANGED - reverting"; git checkout -- .; exit 1;;
esac
echo "$(basename $1) $(git -C /repo log --format=%h -1)" >> /verif/fixes/APPLIED
