"""Fill the commit hash of fixed findings from fixes/APPLIED (integrator helper)."""
import json, glob, re, os
ap = dict(l.split() for l in open("/verif/fixes/APPLIED") if l.strip())
for p in glob.glob("/verif/known_findings/*.json"):
    j = json.load(open(p)); ch = False
    for f in j["findings"]:
        if f.get("status") == "fixed" and not f.get("commit"):
            m = re.search(r"(C\d\d-[\w.-]+?\.patch)", " ".join(str(v) for v in f.values()))
            if m and m.group(1) in ap:
                f["commit"] = ap[m.group(1)]; ch = True
                if not f["what"].startswith("fixed:"):
                    f["what"] = "fixed: property=%s %s %s" % (f["property"], f["commit"], f["what"])
    if ch:
        json.dump(j, open(p, "w"), indent=1)
        print("updated", os.path.basename(p))
